"""Trace validation against PearlStore (TraceStore.tla): executions with injected faults (C11),
dropped futures (C14), random long runs, final states of concurrent runs."""
import json, os, re, subprocess
from .common import *
from . import store

TS_CFG_TAIL = 'POSTCONDITION TraceAccepted\n'


class TraceStoreEngine:
    def __init__(self, run, se):
        self.run = run
        self.se = se
        self.traces = 0
        self.steps = 0
        self.states = 0

    def validate(self, trace, name, consts, timeout=3000):
        c = dict(store.BASE_CONSTS)
        c.update(consts)
        c.update(Quiesce='TRUE', Deterministic='FALSE')
        text = store.cfg_text('TraceSpec', c, None, TS_CFG_TAIL)
        r = self.run.tlc('TraceStore', text, name, workers=1, timeout=timeout,
                         java_opts='-Xss1g -Dtlc2.tool.queue.IStateQueue=StateDeque',
                         env_extra={'TRACE': trace}, heap='8g')
        self.states += r['distinct']
        res = dict(ok=r['ok'], rejected_at=None, event=None, states=r['distinct'])
        if r['ok']:
            return res
        with open(r['out'], errors='replace') as f:
            text = f.read()
        m = re.search(r'<<"TRACE-REJECTED", (\d+), "(.*)">>', text)
        if m:
            res['rejected_at'] = int(m.group(1))
            try:
                res['event'] = json.loads(json.loads('"' + m.group(2) + '"'))
            except Exception:
                res['event'] = {'raw': m.group(2)[:500]}
            return res
        print(text[-3000:])
        raise ToolError('TLC failed on trace %s' % trace)

    def negative_control(self, trace, consts, name):
        """An execution in which one later answer is replaced by a value that was never written
        must be rejected."""
        evs = [json.loads(x) for x in open(trace).read().splitlines()[:600]]
        cut = next((i for i, e in enumerate(evs) if i > 0 and e.get('ev') == 'reset'), len(evs))
        one = json.loads(json.dumps(evs[:cut]))
        idx = [i for i, e in enumerate(one) if e.get('ev') == 'step' and e.get('has_obs') == 1 and e['obs']['keys']]
        if not idx:
            return False
        one[idx[-1]]['obs']['keys'][0]['r'] = {'t': 'F', 'n': 77}
        pth = os.path.join(self.run.work, name + '.ndjson')
        open(pth, 'w').write('\n'.join(json.dumps(e) for e in one) + '\n')
        if self.validate(pth, name, consts)['ok']:
            raise ToolError('negative control failed: an execution with an answer that was never written was accepted by TraceStore')
        self.run.log('negative control: altered answer rejected by TraceStore')
        return True

    def execution_around(self, trace, at):
        """the recorded execution (from its reset) that contains line `at` (1-based)"""
        lines = open(trace).read().splitlines()
        start = at - 1
        while start > 0 and '"ev":"reset"' not in lines[start].replace(' ', ''):
            start -= 1
        return [json.loads(x) for x in lines[start:at]]

    def split_executions(self, trace):
        """list of (first line, last line) 1-based per execution"""
        out, start = [], None
        with open(trace) as f:
            for i, line in enumerate(f, 1):
                if '"ev":"reset"' in line.replace(' ', ''):
                    if start is not None:
                        out.append((start, i - 1))
                    start = i
            if start is not None:
                out.append((start, i))
        return out

    def judge(self, trace, name, consts, prop, describe, max_findings=8):
        """Validate; on rejection report the execution, cut it out and go on with the rest."""
        self.traces += 1
        lines = open(trace).read().splitlines()
        self.steps += len(lines)
        cur = trace
        offset = 0
        findings = 0
        while True:
            res = self.validate(cur, '%s-%d' % (name, findings), consts)
            if res['ok']:
                break
            at = res['rejected_at']
            ex = self.execution_around(cur, at)
            step = ex[-1]
            text, facts = describe(ex, step)
            fault = next((e.get('fault') for e in ex if e.get('ev') == 'reset' and e.get('fault')), None)
            if fault:
                text = 'fault %s: %s' % (fault, text)
                facts['fault'] = fault
            payload = dict(kind='store-trace', verdict=text, execution=ex)
            kf = match_known(prop, facts)
            if kf:
                line = 'KNOWN-FINDING: property=%s %s: %s' % (prop, kf.get('id', ''), kf.get('what', ''))
                if line not in self.run.known:
                    self.run.known.append(line)
            else:
                self.run.violation(prop, payload, text)
                findings += 1
            # drop the offending execution and continue with the others
            cl = open(cur).read().splitlines()
            s = at - 1
            while s > 0 and '"ev":"reset"' not in cl[s].replace(' ', ''):
                s -= 1
            e = at
            while e < len(cl) and '"ev":"reset"' not in cl[e].replace(' ', ''):
                e += 1
            rest = cl[:s] + cl[e:]
            if not rest or findings >= max_findings:
                break
            cur = os.path.join(self.run.work, '%s-rest%d.ndjson' % (name, findings + len(self.run.known)))
            open(cur, 'w').write('\n'.join(rest) + '\n')
        return findings
