"""C09: PearlIndex - TLC evaluates every lookup of the transcribed B+tree on every shape; the
same shapes are replayed through Storage<ArrayKey<KS>> with the model's key length."""
import json, os, subprocess
from .common import *
from .store import cfg_text, tla_str_set, tla_set


class IndexEngine:
    def __init__(self, run):
        self.run = run
        self.states = 0
        self.transitions = 0
        self.shapes = 0
        self.probes = 0
        self.drifts = 0
        self.depths = {}

    def family(self, name, ks, max_keys, runs, patterns=('asc',), delats=(0,), family='all', perturb_from=1,
               sample=(1, 1), timeout=3600, shards=None):
        c = dict(Block='4096', KS=str(ks), MaxKeys=str(max_keys), Runs=tla_set([str(r) for r in runs]),
                 TsPatterns=tla_str_set(patterns), DelAts=tla_set([str(d) for d in delats]),
                 Family='"%s"' % family, PerturbFrom=str(perturb_from), SampleMod=str(sample[1]),
                 SampleKeep=str(sample[0]), Seed=str(self.run.seed))
        text = cfg_text('Spec', c, ['LookupsEqualMemory', 'RunStartsInBuffer', 'AllKeyLengthsFit', 'RemainderClassesCovered', 'EmitShape'])
        r = self.run.tlc('GenIndex', text, name, workers=8, timeout=timeout)
        self.states += r['distinct']
        self.transitions += r['generated']
        self.run.log('TLC %s: %d shapes checked (KS=%d), %.0fs, ok=%s' % (name, r['distinct'], ks, r['wall'], r['ok']))
        if not r['ok']:
            if r['rc'] == 124:
                raise ToolError('TLC time-out in %s' % name)
            excerpt = self.run.tlc_error_excerpt(r)
            if any('violated' in e for e in r['errors']):
                self.run.violation(self.run.prop, dict(kind='tlc-counterexample', config=name, text=excerpt),
                                   'TLC: a lookup of the transcribed B+tree differs from the in-memory answer (%s):\n%s' % (name, excerpt[:2500]))
                return
            print(excerpt[:3000])
            raise ToolError('TLC failed in %s' % name)
        # replay
        shards = shards or min(NCPU, 12)
        files = [open(os.path.join(self.run.work, 'shapes-%s-%d.txt' % (name, i)), 'w') for i in range(shards)]
        n = 0
        with open(r['out'], errors='replace') as f:
            for line in f:
                if line.startswith('<<"SHAPE"'):
                    files[n % shards].write(line)
                    n += 1
        for f in files:
            f.close()
        os.remove(r['out'])
        procs = []
        for i in range(shards):
            out = os.path.join(self.run.work, 'shapes-%s-%d.out' % (name, i))
            p = subprocess.Popen([os.path.join(BIN, 'shapes'), '--ks', str(ks), '--rt', 'mt' if i % 3 else 'ct',
                                  '--bloom', ('small', 'off', 'odd')[i % 3]],
                                 stdin=open(files[i].name), stdout=open(out, 'w'), stderr=open(out + '.err', 'w'))
            procs.append((p, out))
        bad = 0
        for p, out in procs:
            rc = p.wait()
            ok = False
            with open(out, errors='replace') as f:
                for line in f:
                    if line.startswith('MISMATCH '):
                        rec = json.loads(line[9:])
                        bad += 1
                        m = rec['mismatches'][0]
                        text = 'shape %s: %s' % (json.dumps(rec['shape']), json.dumps(m)[:400])
                        self.run.violation(self.run.prop, rec, text)
                    elif line.startswith('DRIFT '):
                        self.run.notes.append('spec drift (layout of the real index file differs from the model, not a violation): ' + line[6:300])
                    elif line.startswith('RESULT '):
                        res = json.loads(line[7:])
                        ok = True
                        self.shapes += res['shapes']
                        self.probes += res['probes']
                        self.drifts += res['drifts']
                        for k, v in res.get('depths', {}).items():
                            self.depths[k] = self.depths.get(k, 0) + v
                        if res.get('sample') and len(self.run.samples) < 5:
                            self.run.samples.append(dict(ks=ks, family=name, shape=res['sample']))
            if rc != 0 or not ok:
                raise ToolError('shapes process failed rc=%s (%s)' % (rc, out))
        self.run.log('%s: %d shapes replayed, %d with mismatches' % (name, n, bad))

    def coverage(self):
        return dict(states=self.states, transitions=self.transitions, traces_validated_against_impl=self.shapes,
                    probes=self.probes, layout_drifts=self.drifts, tree_depths=self.depths,
                    evaluations=self.shapes, distinct_nontrivial=self.shapes,
                    rule='every shape (versions per key, timestamp pattern, marker position) is an initial state of '
                         'PearlIndex on which TLC evaluates every lookup; each is also written into a real storage with '
                         'keys of the model length and asked in memory, on disk, reloaded and reopened lazily')
