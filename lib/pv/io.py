"""Checks decided on PearlIO by trace validation: executions of the real storage recorded
through the cfg(pearl_verif) hooks are replayed by TLC through TraceIO.  C12 C07 (+ parts of
C11, C06)."""
import json, os, re, subprocess
from .common import *
from . import store

IO_INVS = ['HeaderSyncedBeforeFirstAck', 'IndexWrittenImpliesBlobDurable', 'SyncedLeDurable',
           'DirtyBoundedAtQuiescence', 'FsyncLeavesNoDirty', 'CloseLeavesNoDirty', 'NoOverlap']
INV_PROP = {'HeaderSyncedBeforeFirstAck': 'C12', 'IndexWrittenImpliesBlobDurable': 'C12', 'SyncedLeDurable': 'C12',
            'DirtyBoundedAtQuiescence': 'C12', 'FsyncLeavesNoDirty': 'C12', 'CloseLeavesNoDirty': 'C12',
            'NoOverlap': 'C07'}
# an event no PearlIO action explains: which property the missing step belongs to
REJECT_PROP = {'create': 'C07', 'open': 'C07', 'reserve': 'C07', 'write': 'C07', 'write_done': 'C07',
               'write_at': 'C07', 'truncate': 'C07', 'rename': 'C07', 'remove': 'C07', 'append': 'C07',
               'sync_begin': 'C12', 'sync': 'C12', 'sync_end': 'C12'}

TRACE_CFG = ('SPECIFICATION TraceSpec\nCONSTANTS BlobHeaderLen = 20\nINVARIANTS %s\n'
             'POSTCONDITION TraceAccepted\nCHECK_DEADLOCK FALSE\n')


class IOEngine:
    def __init__(self, run, store_engine):
        self.run = run
        self.se = store_engine
        self.traces = 0
        self.events = 0
        self.tlc_states = 0
        self.executions = 0

    def record(self, tlc_out, hcfgs, nkeys, tag, shards=None, limit=None, snapshots=True):
        """Replay behaviours with the recorder installed; returns (trace files, mismatches)."""
        shards = shards or min(NCPU, 12)
        files = [open(os.path.join(self.run.work, 'shard-%s-%d.txt' % (tag, i)), 'w') for i in range(shards)]
        n = 0
        with open(tlc_out, errors='replace') as f:
            for line in f:
                if not line.startswith('<<"BEHAVIOUR"'):
                    continue
                if limit and n >= limit:
                    break
                files[n % shards].write(line)
                n += 1
        for f in files:
            f.close()
        procs = []
        for i in range(shards):
            h = dict(hcfgs[i % len(hcfgs)])
            h['seed'] = self.run.seed * 1000 + i
            out = os.path.join(self.run.work, 'rec-%s-%d.out' % (tag, i))
            trace = os.path.join(self.run.work, 'trace-%s-%d.ndjson' % (tag, i))
            cmd = [os.path.join(BIN, 'replay'), '--cfg', json.dumps(h), '--nkeys', str(nkeys), '--trace', trace] + self.se.only_arg()
            if snapshots:
                cmd.append('--snapshots')
            p = subprocess.Popen(cmd, stdin=open(files[i].name), stdout=open(out, 'w'),
                                 stderr=open(out + '.err', 'w'))
            procs.append((p, out, trace, h))
        traces, mismatches = [], []
        for p, out, trace, h in procs:
            rc = p.wait()
            ok = False
            with open(out, errors='replace') as f:
                for line in f:
                    if line.startswith('MISMATCH '):
                        mismatches.append(json.loads(line[9:]))
                    elif line.startswith('RESULT '):
                        r = json.loads(line[7:])
                        ok = True
                        self.executions += r['executed']
                        self.se.replayed += r['executed']
                        self.se.replayed_steps += r['steps']
                        self.se.distinct += r['distinct']
                        for k, v in r.get('actions', {}).items():
                            self.se.action_counts[k] += v
                        self.events += r.get('trace_events', 0)
                        if r.get('sample') and len(self.run.samples) < 3:
                            self.run.samples.append(dict(harness_cfg=h, behaviour=r['sample']))
            if rc != 0 or not ok:
                raise ToolError('recording replay failed rc=%s (%s)' % (rc, out))
            traces.append((trace, h))
        self.run.log('recorded %d executions, %d events, %d with observable mismatches' % (self.executions, self.events, len(mismatches)))
        return traces, mismatches

    def validate(self, trace, name, invs=IO_INVS, module='TraceIO', cfg=None):
        """TLC trace validation.  Returns dict(ok, inv, rejected_at, event, excerpt)."""
        r = self.run.tlc(module, cfg or (TRACE_CFG % ' '.join(invs)), name, workers=1, timeout=1200,
                         java_opts='-Xss1g -Dtlc2.tool.queue.IStateQueue=StateDeque',
                         env_extra={'TRACE': trace}, heap='6g')
        self.tlc_states += r['distinct']
        res = dict(ok=r['ok'], inv=None, rejected_at=None, event=None, excerpt='', states=r['distinct'])
        if r['ok']:
            return res
        with open(r['out'], errors='replace') as f:
            text = f.read()
        m = re.search(r'Invariant (\w+) is violated', text)
        if m:
            res['inv'] = m.group(1)
            # the last state of the counterexample tells the position in the trace
            ls = re.findall(r'/\\ l = (\d+)', text)
            if ls:
                res['rejected_at'] = int(ls[-1]) - 1
        m = re.search(r'<<"TRACE-REJECTED", (\d+), "(.*)">>', text)
        if m and not res['inv']:
            res['rejected_at'] = int(m.group(1))
            try:
                res['event'] = json.loads(json.loads('"' + m.group(2) + '"'))
            except Exception:
                res['event'] = {'raw': m.group(2)[:300]}
        if not res['inv'] and res['rejected_at'] is None:
            print(text[-3000:])
            raise ToolError('TLC failed on trace %s' % trace)
        return res

    def context(self, trace, at, before=25, after=3):
        """events around position `at` (1-based), back to the last reset"""
        lines = open(trace).read().splitlines()
        start = max(0, at - before)
        return [json.loads(x) for x in lines[start:at + after]]

    def judge_trace(self, trace, h, name):
        res = self.validate(trace, name)
        self.traces += 1
        if res['ok']:
            return res
        if res['inv']:
            prop = INV_PROP.get(res['inv'], self.run.prop)
            what = 'invariant %s violated after event %s' % (res['inv'], res['rejected_at'])
        else:
            ev = (res['event'] or {}).get('ev', '?')
            prop = REJECT_PROP.get(ev)
            what = 'event %s (%s) is not a step the specification allows: %s' % (res['rejected_at'], ev, json.dumps(res['event'])[:300])
            if prop is None:
                raise ToolError('trace rejected at a driver event: ' + what)
        ctx = self.context(trace, res['rejected_at'] or 1)
        payload = dict(kind='trace', harness_cfg=h, verdict=what, events=ctx)
        text = 'trace validation (%s): %s' % (os.path.basename(trace), what)
        if prop == self.run.prop:
            facts = dict(kind=res['inv'] or 'rejected', action=(res['event'] or {}).get('ev', ''))
            kf = match_known(prop, facts)
            if kf:
                line = 'KNOWN-FINDING: property=%s %s: %s' % (prop, kf.get('id', ''), kf.get('what', ''))
                if line not in self.run.known:
                    self.run.known.append(line)
            else:
                self.run.violation(prop, payload, text)
        else:
            self.run.notes.append('trace problem attributed to %s (not judged here): %s' % (prop, what[:200]))
        return res

    def negative_controls(self, trace):
        """The binding must bite: a trace with one sync removed / one offset altered / a write
        to a blob inside a query must be rejected."""
        lines = open(trace).read().splitlines()
        evs = [json.loads(x) for x in lines[:6000]]
        made = 0
        # (a) drop the sync events of an explicit fsync that had un-synced bytes to cover
        dirty = {}
        cand = None
        call_at = None
        for i, e in enumerate(evs):
            if e['ev'] == 'reset':
                dirty = {}
            elif e['ev'] == 'write_done' and e['k'] == 'blob':
                dirty[e['f']] = True
            elif e['ev'] == 'sync_end':
                dirty[e['f']] = False
            elif e['ev'] == 'call' and e['op'] == 'fsync':
                call_at = i if any(dirty.values()) else None
            elif e['ev'] == 'ret' and e['op'] == 'fsync' and e['ok'] == 1 and call_at is not None:
                if any(x['ev'] == 'sync_end' for x in evs[call_at:i]):
                    cand = (call_at, i)
                    break
                call_at = None
        if cand:
            c0, c1 = cand
            cut = [e for i, e in enumerate(evs[:c1 + 3]) if not (c0 < i < c1 and e['ev'] in ('sync_begin', 'sync', 'sync_end'))]
            p = os.path.join(self.run.work, 'neg-a.ndjson')
            open(p, 'w').write('\n'.join(json.dumps(e) for e in cut) + '\n')
            r = self.validate(p, 'neg-a')
            made += 1
            if r['ok']:
                raise ToolError('negative control failed: a trace without the sync of an explicit fsync was accepted')
        # (b) shift the offset of one append reservation
        idx = next((i for i, e in enumerate(evs) if e['ev'] == 'reserve' and e['k'] == 'blob' and e['off'] > 20), None)
        if idx is not None:
            mod = [dict(e) for e in evs[:idx + 20]]
            mod[idx]['off'] -= 1
            p = os.path.join(self.run.work, 'neg-b.ndjson')
            open(p, 'w').write('\n'.join(json.dumps(e) for e in mod) + '\n')
            r = self.validate(p, 'neg-b')
            made += 1
            if r['ok']:
                raise ToolError('negative control failed: an append at a wrong offset was accepted')
        self.run.log('negative controls: %d corrupted traces rejected' % made)
        return made

    def coverage(self):
        c = self.se.coverage()
        c.update(traces_validated_against_impl=self.traces, trace_events=self.events,
                 executions_recorded=self.executions)
        c['states'] = c.get('states', 0) + self.tlc_states
        c['transitions'] = c.get('transitions', 0) + self.tlc_states
        c['rule'] = ('every execution is a TLC-generated behaviour run on the real storage with all file operations, '
                     'linearization events and API calls recorded; TLC replays the recording through TraceIO and '
                     'evaluates every PearlIO invariant after every event')
        return c
