import argparse, json, os, sys, traceback
from .common import *
from . import store
from . import io as pvio
from . import index as pvindex
from . import tstore as pvts


HCFGS_VARIETY = [
    dict(ks=4, bloom='small', group=8, rt='mt', wait=True),
    dict(ks=1, bloom='off', group=2, rt='mt', wait=True),
    dict(ks=32, bloom='odd', group=3, rt='ct', wait=True),
    dict(ks=4, bloom='small', group=2, rt='mt', wait=False),
    dict(ks=1000, bloom='small', group=8, rt='mt', wait=True),
    dict(ks=8, bloom='tiny', group=2, rt='ct', wait=True),
    dict(ks=4, bloom='odd', group=3, rt='mt', wait=True, deferred_fires=False),
]


def store_check(run, mc, suites, level='model_checking', extra=None):
    """Generic shape of the PearlStore-based checks."""
    eng = store.StoreEngine(run)
    run.build()
    if extra:
        extra(run, eng)
    for m in mc:
        if os.environ.get('VERIF_SKIP_MC'):
            break
        if m.get('lemma'):
            eng.push_lemma(**{k: v for k, v in m.items() if k != 'lemma'})
        else:
            eng.model_check(**m)
    for s in suites:
        s = dict(s)
        hcfgs = s.pop('hcfgs', HCFGS_VARIETY)
        nkeys = s.pop('nkeys')
        limit = s.pop('limit', None)
        overrides = s.pop('hcfg_overrides', {})
        hc = [dict(h, **overrides) for h in hcfgs]
        r = eng.generate(**s)
        mm = eng.replay(r['out'], hc, nkeys, limit=limit, tag='-' + s['name'])
        eng.judge(mm)
        os.remove(r['out'])
    cov = eng.coverage()
    run.assumptions += [
        'TLC explores the specification within the stated constants only (small scope)',
        'the harness maps abstract keys / values / metadata to concrete bytes (harness/src/drive.rs); expected values come from TLC only',
        'background work is waited for through the cfg(pearl_verif) probe, never by sleeping',
    ]
    return run.finish(level, cov)


Q = lambda run: run.tier == 'quick'
LIFE3 = ['close_active', 'restore_active', 'create_active']


def check_C01(run):
    q = Q(run)
    mc = [dict(lemma=True, maxlen=7 if q else 9, maxts=3),
          dict(name='mc-c01-2k', consts=dict(Keys='{1, 2}', Metas='{0}', MaxRecs='0'), max_ops=2 if q else 3, max_blob=2,
               acts=['write', 'delete', 'close_active', 'restore_active', 'dump_idx', 'restart'], damages=('keep', 'lose'),
               timeout=3600),
          dict(name='mc-c01-1k', consts=dict(Keys='{1}', Metas='{0}', MaxRecs='0'), max_ops=3 if q else 4, max_blob=2,
               acts=['write', 'delete', 'close_active', 'dump_idx'], timeout=3600)]
    suites = [
        dict(name='2k-switch', consts=dict(Keys='{1, 2}', MaxTs='2'), genlen=4,
             acts=['write', 'delete', 'restart'] + LIFE3,
             restarts_set=store.restarts(gs=(True,), dmgs=('keep', 'lose')), nkeys=2,
             sample=(1, 24) if q else (1, 1)),
        dict(name='1k-deep', consts=dict(Keys='{1}', MaxTs='2'), genlen=6 if q else 7,
             acts=['write', 'delete', 'close_active', 'restart'],
             restarts_set=store.restarts(gs=(True,), lazies=(False,), dmgs=('keep', 'lose')), nkeys=1,
             sample=(1, 120) if q else (1, 8)),
        dict(name='sim', consts=dict(Keys='{1, 2}', MaxTs='3', Metas='{0, 1}'), genlen=24,
             acts=['write', 'delete', 'restart', 'force_update', 'free_excess'] + LIFE3,
             restarts_set=store.restarts(), nkeys=2, simulate=400 if q else 6000, workers=1 if q else 8),
    ]
    return store_check(run, mc, suites)




def check_C02(run):
    q = Q(run)
    mc = [dict(name='mc-c02', consts=dict(Keys='{1}', MaxTs='2', Metas='{0, 1}', MaxRecs='0'), max_ops=3 if q else 4, max_blob=1,
               acts=['write', 'delete', 'close_active', 'create_active'], timeout=3600),
          dict(name='mc-c02-3m', consts=dict(Keys='{1}', MaxTs='2', Metas='{0, 1, 2}', MaxRecs='0'), max_ops=2 if q else 3, max_blob=2,
               acts=['write', 'delete', 'close_active', 'restore_active'], timeout=3600),
          dict(name='mc-c02-nodup', consts=dict(Keys='{1}', Metas='{0, 1}', MaxRecs='0', AllowDup='FALSE'), max_ops=3 if q else 4,
               max_blob=2, acts=['write', 'delete', 'close_active'], timeout=3600)]
    suites = [
        dict(name='meta', consts=dict(Keys='{1}', MaxTs='2', Metas='{0, 1, 2}'), genlen=4,
             acts=['write', 'delete', 'close_active', 'restore_active'], nkeys=1,
             sample=(1, 16) if q else (1, 4)),
        dict(name='nodup', consts=dict(Keys='{1}', MaxTs='2', Metas='{0, 1}', AllowDup='FALSE'), genlen=4 if q else 5,
             acts=['write', 'delete', 'close_active'], nkeys=1, hcfg_overrides=dict(allow_dup=False),
             sample=(1, 4) if q else (1, 6)),
        dict(name='2k-placement', consts=dict(Keys='{1, 2}', MaxTs='2'), genlen=4 if q else 5,
             acts=['write', 'delete', 'close_active', 'create_active', 'restore_active'], nkeys=2,
             sample=(1, 12) if q else (1, 12)),
        dict(name='sim', consts=dict(Keys='{1, 2}', MaxTs='3', Metas='{0, 1, 2}'), genlen=24,
             acts=['write', 'delete', 'restart', 'force_update'] + LIFE3,
             restarts_set=store.restarts(dmgs=('keep', 'lose')), nkeys=2,
             simulate=300 if q else 3000, workers=1 if q else 8),
        dict(name='sim-nodup', consts=dict(Keys='{1, 2}', MaxTs='3', Metas='{0, 1, 2}', AllowDup='FALSE'), genlen=20,
             acts=['write', 'delete', 'restart'] + LIFE3, hcfg_overrides=dict(allow_dup=False),
             restarts_set=store.restarts(dmgs=('keep',)), nkeys=2,
             simulate=150 if q else 2000, workers=1 if q else 8),
    ]
    return store_check(run, mc, suites)


def check_C03(run):
    q = Q(run)
    mc = [dict(name='mc-c03', consts=dict(Keys='{1}', Metas='{0}', MaxRecs='0'), max_ops=2 if q else 3, max_blob=2, timeout=3600,
               acts=['write', 'delete', 'close_active', 'restore_active', 'dump_idx', 'restart']),
          dict(name='mc-c03-full', consts=dict(Keys='{1}', MaxTs='1', Metas='{0}', MaxRecs='0'), max_ops=2 if q else 3, max_blob=2, timeout=3600,
               acts=['write', 'delete', 'close_active', 'create_active', 'dump_idx', 'restart_full'])]
    suites = [
        dict(name='restart-2k', consts=dict(Keys='{1, 2}', MaxTs='2'), genlen=4,
             acts=['write', 'delete', 'close_active', 'restore_active', 'restart'],
             restarts_set=store.restarts(), nkeys=2, sample=(1, 40) if q else (1, 8)),
        dict(name='restart-quarantine', consts=dict(Keys='{1}', MaxTs='1'), genlen=5 if q else 6,
             acts=['write', 'delete', 'close_active', 'restart', 'restart_corrupt'],
             restarts_set=store.restarts(gs=(True,), dmgs=('keep',)), nkeys=1, sample=(1, 8) if q else (1, 3)),
        dict(name='restart-ignore', consts=dict(Keys='{1}', MaxTs='1', IgnoreCorrupted='TRUE'), genlen=5 if q else 6,
             acts=['write', 'delete', 'close_active', 'restart', 'restart_corrupt'], hcfg_overrides=dict(ignore_corrupted=True),
             restarts_set=store.restarts(gs=(True,), dmgs=('keep',)), nkeys=1, sample=(1, 8) if q else (1, 3)),
        dict(name='restart-stale', consts=dict(Keys='{1}', MaxTs='2', DeferredFires='FALSE'), genlen=5,
             acts=['write', 'delete', 'close_active', 'restart'], hcfg_overrides=dict(deferred_fires=False),
             restarts_set=store.restarts(dmgs=('keep', 'stale')), nkeys=1, sample=(1, 10) if q else (1, 3)),
        dict(name='sim', consts=dict(Keys='{1, 2}', MaxTs='3', Metas='{0, 1}'), genlen=24,
             acts=['write', 'delete', 'restart', 'force_update', 'create_active', 'close_active', 'restore_active'],
             restarts_set=store.restarts(), nkeys=2, simulate=300 if q else 6000, workers=1 if q else 8),
    ]

    def forced(run, eng):
        # restart equivalence under the one schedule in which the blob order of a session can differ from the order of
        # the ids: the worker installs a blob it prepared before a client created a newer one (finding F22)
        for rep in range(1 if q else 3):
            out = os.path.join(run.work, 'late-install-%d.out' % rep)
            rc = subprocess.run([os.path.join(BIN, 'workerck'), '--scenario', 'late-install', '--out', os.path.join(run.work, 'late-install-%d.ndjson' % rep)],
                                stdout=open(out, 'w'), stderr=open(out + '.err', 'w')).returncode
            if rc != 0:
                raise ToolError('workerck failed rc=%s (%s)' % (rc, out))
            for line in open(out, errors='replace'):
                if line.startswith('MISMATCH '):
                    rec = json.loads(line[9:])
                    run.violation('C03', rec, 'forced schedule late-install: %s' % json.dumps(rec['mismatches'][0])[:400])
            eng.replayed += 1
        run.log('forced schedule late-install executed')
    return store_check(run, mc, suites, extra=forced)


LIFE_ALL = ['close_active', 'create_active', 'restore_active', 'force_update', 'close_bg', 'create_bg',
            'restore_bg', 'free_excess', 'fsync', 'offload']


def check_C04(run):
    q = Q(run)
    mc = [dict(name='mc-c04', consts=dict(Keys='{1}', MaxTs='1' if q else '2', Metas='{0}', MaxRecs='0'), max_ops=2 if q else 3, max_blob=2,
               acts=['write', 'delete', 'close_active', 'create_active', 'restore_active', 'force_update', 'close_bg',
                     'create_bg', 'restore_bg', 'free_excess', 'dump_idx'])]
    suites = [
        dict(name='life-1k', consts=dict(Keys='{1}', MaxTs='2', OffloadLevels='{0, 1}'), genlen=4 if q else 5,
             acts=['write', 'delete'] + LIFE_ALL, preds=('always', 'never', 'ifactive'), nkeys=1,
             sample=(1, 12) if q else (1, 4)),
        dict(name='life-async', consts=dict(Keys='{1}', MaxTs='2', Quiesce='FALSE'), genlen=5,
             acts=['write', 'delete', 'close_active', 'restore_active', 'dump_idx', 'force_update'], nkeys=1,
             hcfgs=[dict(ks=4, bloom='small', group=2, rt='mt', wait=False), dict(ks=8, bloom='off', group=3, rt='ct', wait=False)],
             sample=(1, 20) if q else (1, 2)),
        # every sequence of six calls among write / close / off-load / restore on one key, with bloom filters on: an index
        # that goes to disk, loses its filter buffer, comes back to memory and is dumped again
        dict(name='offload-life', consts=dict(Keys='{1}', MaxTs='1', OffloadLevels='{0, 1}'), genlen=6,
             acts=['write', 'close_active', 'offload', 'restore_active'], nkeys=1,
             hcfgs=[dict(ks=4, bloom='small', group=2, rt='mt', wait=True), dict(ks=8, bloom='default', group=8, rt='ct', wait=True),
                    dict(ks=4, bloom='odd', group=3, rt='mt', wait=True), dict(ks=32, bloom='tiny', group=2, rt='mt', wait=True)],
             sample=(1, 1)),
        # three keys: a blob whose key range encloses, or lies inside, or beside the range of the blobs closed before
        # it (what the merged filters of the closed-blob container have to cope with); small groups so that the
        # merged filters are consulted
        dict(name='range-3k', consts=dict(Keys='{1, 2, 3}', MaxTs='1'), genlen=5 if q else 6,
             acts=['write', 'close_active', 'create_active', 'restore_active'], nkeys=3,
             hcfgs=[dict(ks=4, bloom='small', group=2, rt='mt', wait=True), dict(ks=8, bloom='off', group=2, rt='ct', wait=True),
                    dict(ks=32, bloom='odd', group=3, rt='mt', wait=True), dict(ks=4, bloom='tiny', group=2, rt='mt', wait=False)],
             sample=(1, 1)),
        dict(name='sim', consts=dict(Keys='{1, 2}', MaxTs='3', Metas='{0, 1}', OffloadLevels='{0, 1, 2}'), genlen=30,
             acts=['write', 'delete'] + LIFE_ALL, preds=('always', 'never', 'ifactive'), nkeys=2,
             simulate=300 if q else 6000, workers=1 if q else 8),
    ]

    def filter_transitions(run, eng):
        # one behaviour per transition of the filter-hierarchy model (GenFilters: writes, close / create / restore of the
        # active blob, off-loading): afterwards every written key must still be found by every query
        for name, consts, keep in [('edges-g2', dict(KeysF='{1, 2}', NBits='4', GroupSize='2', MaxBlobs='4', Level='1', OffLevels='{0, 1, 2}'), (1, 150) if q else (1, 6)),
                                   ('edges-g3', dict(KeysF='{1, 2}', NBits='4', GroupSize='3', MaxBlobs='4', Level='1', OffLevels='{1}'), (1, 150) if q else (1, 6))]:
            c = dict(consts, SampleKeep=str(keep[0]), SampleMod=str(keep[1]), Seed=str(run.seed))
            text = store.cfg_text('GSpec', c, ['NoFalseNegative'], 'VIEW GView\nCONSTRAINT FBound\nACTION_CONSTRAINT EmitEdge\n')
            r = run.tlc('GenFilters', text, name, workers=8, timeout=3000)
            eng.mc_states += r['distinct']
            eng.mc_transitions += r['generated']
            if not r['ok']:
                raise ToolError('TLC failed in %s' % name)
            g = int(consts['GroupSize'])
            hcg = [dict(ks=4, bloom='small', group=g, rt='mt', wait=True), dict(ks=8, bloom='tiny', group=g, rt='ct', wait=True),
                   dict(ks=4, bloom='default', group=g, rt='mt', wait=True), dict(ks=32, bloom='odd', group=g, rt='mt', wait=True)]
            eng.extra_args = ['--probe-written']
            mm = eng.replay(r['out'], hcg, 2, tag='-' + name)
            eng.extra_args = []
            eng.judge(mm)
            os.remove(r['out'])
    return store_check(run, mc, suites, extra=filter_transitions)


WORKER_CFG = ('SPECIFICATION TraceSpec\nCONSTANTS\n NBlobs = 2\n MaxReq = 0\n RearmOnBusy = TRUE\n ResetBeforeProcess = TRUE\n'
              'POSTCONDITION TraceAccepted\nCHECK_DEADLOCK FALSE\n')


def worker_part(run, eng):
    """The worker loop: PearlWorker model-checked by TLC; the schedules of its counterexamples forced on the
    real storage (workerck) and every recorded execution of the loop validated against it (TraceWorker)."""
    q = Q(run)
    io = pvio.IOEngine(run, eng)
    base = dict(NBlobs='2', MaxReq='4' if q else '6')
    for name, consts in [('worker-2', base)] + ([] if q else [('worker-3', dict(NBlobs='3', MaxReq='5'))]):
        c = dict(consts, RearmOnBusy='TRUE', ResetBeforeProcess='TRUE')
        r = run.tlc('PearlWorker', store.cfg_text('WSpec', c, ['WTypeOK', 'DeferredDumpsComplete']), name, workers=4, timeout=1800)
        eng.mc_states += r['distinct']
        eng.mc_transitions += r['generated']
        run.log('TLC %s: %d distinct states, ok=%s' % (name, r['distinct'], r['ok']))
        if not r['ok']:
            ex = run.tlc_error_excerpt(r)
            if any('violated' in e for e in r['errors']):
                run.violation('C13', dict(kind='tlc-counterexample', config=name, text=ex), 'TLC: the worker loop design leaves a requested index dump undone (%s)\n%s' % (name, ex[:2500]))
            else:
                print(ex[:3000])
                raise ToolError('TLC failed in %s' % name)
    for name, dev in [('worker-found-F19', dict(RearmOnBusy='FALSE', ResetBeforeProcess='TRUE')), ('worker-reset-late', dict(RearmOnBusy='TRUE', ResetBeforeProcess='FALSE'))]:
        r = run.tlc('PearlWorker', store.cfg_text('WSpec', dict(base, **dev), ['DeferredDumpsComplete']), name, workers=4, timeout=900)
        if r['ok'] or not any('DeferredDumpsComplete' in e for e in r['errors']):
            raise ToolError('negative control: PearlWorker with %s was not refuted by TLC' % dev)
    run.log('negative controls: both deviations of PearlWorker refuted by TLC')
    # schedules of the counterexamples on the real storage
    traces = []
    for sc in ['busy-redefer', 'double-defer', 'channel-full', 'stale-request']:
        for rep in range(1 if q else 3):
            tr = os.path.join(run.work, 'worker-%s-%d.ndjson' % (sc, rep))
            out = os.path.join(run.work, 'worker-%s-%d.out' % (sc, rep))
            cmd = [os.path.join(BIN, 'workerck'), '--scenario', sc, '--out', tr, '--min-ms', str(400 + 150 * rep), '--slow-ms', str(700 + 200 * rep)]
            rc = subprocess.run(cmd, stdout=open(out, 'w'), stderr=open(out + '.err', 'w')).returncode
            if rc != 0:
                raise ToolError('workerck failed rc=%s (%s)' % (rc, out))
            for line in open(out, errors='replace'):
                if line.startswith('MISMATCH '):
                    rec = json.loads(line[9:])
                    run.violation('C13', rec, 'worker schedule %s: %s' % (sc, json.dumps(rec['mismatches'][0])[:300]))
            traces.append((tr, dict(scenario=sc)))
            eng.replayed += 1
    # ordinary executions of the loop: TLC-generated histories with deletions into closed blobs, closes,
    # background requests and overflows, recorded through the hooks
    suite = dict(name='worker-hist', consts=dict(Keys='{1, 2}', MaxTs='1', MaxRecs='2'), genlen=4 if q else 5,
                 acts=['write', 'delete', 'close_active', 'create_active', 'restore_active', 'force_update', 'close_bg', 'create_bg'],
                 preds=('always', 'ifactive'), suffix=1, sample=(1, 40) if q else (1, 4))
    r = eng.generate(**suite)
    hc = [dict(h, max_recs=2, deferred_fires=True, wait=True) for h in HCFGS_VARIETY]
    recs, mm = io.record(r['out'], hc, 2, 'worker-hist', snapshots=False)
    os.remove(r['out'])
    eng.judge(mm)
    for tr, h in traces + recs:
        if not os.path.exists(tr) or os.path.getsize(tr) == 0:
            continue
        res = io.validate(tr, 'tw-' + os.path.basename(tr).replace('.ndjson', ''), module='TraceWorker', cfg=WORKER_CFG)
        eng.mc_states += res['states']
        if not res['ok']:
            if res['rejected_at'] is None:
                raise ToolError('TLC failed on worker trace %s' % tr)
            ctx = io.context(tr, res['rejected_at'], before=30)
            what = 'event %s is not what the worker loop specification computes: %s' % (res['rejected_at'], json.dumps(res['event'])[:200])
            run.violation('C13', dict(kind='worker-trace', harness_cfg=h, verdict=what, events=ctx), 'worker trace (%s): %s' % (os.path.basename(tr), what))
    run.log('worker loop: %d traces validated against PearlWorker' % (len(traces) + len(recs)))
    # negative control of the binding: a trace whose logged deadline flag is flipped must be rejected
    if not run.violations and traces:
        src = traces[0][0]
        bad = os.path.join(run.work, 'worker-negctl.ndjson')
        lines = open(src).read().splitlines()
        idx = [i for i, x in enumerate(lines) if '"wstate"' in x and '"deadline":1' in x.replace(' ', '')]
        if idx:
            e = json.loads(lines[idx[len(idx) // 2]])
            e['deadline'] = 0
            lines[idx[len(idx) // 2]] = json.dumps(e)
            open(bad, 'w').write('\n'.join(lines) + '\n')
            res = io.validate(bad, 'tw-negctl', module='TraceWorker', cfg=WORKER_CFG)
            if res['ok']:
                raise ToolError('negative control: a corrupted worker trace was accepted')
            run.log('negative control: corrupted worker trace rejected')


def check_C13(run):
    q = Q(run)
    mc = [dict(name='mc-c13', consts=dict(Keys='{1}', MaxTs='1', Metas='{0}', MaxRecs='2'), max_ops=3 if q else 4, max_blob=3,
               acts=['write', 'delete', 'close_active', 'create_active', 'restore_active', 'force_update', 'close_bg',
                     'create_bg', 'restore_bg', 'age'])]
    suites = [
        dict(name='bg-overflow', consts=dict(Keys='{1}', MaxTs='1', MaxRecs='2'), genlen=3 if q else 4,
             acts=['write', 'delete', 'close_active', 'create_active', 'restore_active', 'force_update',
                   'close_bg', 'create_bg', 'restore_bg', 'free_excess'],
             preds=('always', 'never', 'ifactive'), nkeys=1, suffix=1, hcfg_overrides=dict(max_recs=2),
             sample=(1, 6) if q else (1, 1)),
    ]
    return store_check(run, mc, suites, extra=worker_part)


def check_C15(run):
    q = Q(run)
    mc = [dict(name='mc-c15', consts=dict(Keys='{1}', MaxTs='1', Metas='{0}', MaxRecs='0'), max_ops=3 if q else 4, max_blob=2,
               acts=['write', 'delete', 'close_active', 'create_active', 'restore_active', 'force_update', 'restart'],
               damages=('keep', 'lose')),
          dict(name='mc-c15-quar', consts=dict(Keys='{1}', MaxTs='1', Metas='{0}', MaxRecs='0'), max_ops=2 if q else 3, max_blob=3,
               acts=['write', 'close_active', 'create_active', 'restart', 'restart_corrupt'], damages=('keep',)),
          dict(name='mc-c15-ignore', consts=dict(Keys='{1}', MaxTs='1', Metas='{0}', MaxRecs='0', IgnoreCorrupted='TRUE'), max_ops=2 if q else 3, max_blob=3,
               acts=['write', 'close_active', 'create_active', 'restart', 'restart_corrupt'], damages=('keep',))]
    suites = [
        dict(name='counts-2k', consts=dict(Keys='{1, 2}', MaxTs='2'), genlen=4,
             acts=['write', 'delete', 'close_active', 'restore_active', 'create_active', 'force_update', 'restart'],
             restarts_set=store.restarts(dmgs=('keep', 'lose')), nkeys=2, sample=(1, 30) if q else (1, 8)),
        dict(name='counts-quarantine', consts=dict(Keys='{1}', MaxTs='1'), genlen=5 if q else 6,
             acts=['write', 'close_active', 'create_active', 'restart', 'restart_corrupt'],
             restarts_set=store.restarts(gs=(True,), dmgs=('keep',)), nkeys=1, sample=(1, 6) if q else (1, 3)),
        dict(name='counts-ignore', consts=dict(Keys='{1}', MaxTs='1', IgnoreCorrupted='TRUE'), genlen=5 if q else 6,
             acts=['write', 'close_active', 'create_active', 'restart', 'restart_corrupt'], hcfg_overrides=dict(ignore_corrupted=True),
             restarts_set=store.restarts(gs=(True,), dmgs=('keep',)), nkeys=1, sample=(1, 6) if q else (1, 3)),
        dict(name='counts-holes', consts=dict(Keys='{1}', MaxTs='1'), genlen=6 if q else 7,
             acts=['write', 'delete', 'close_active', 'restore_active', 'create_active', 'restart'],
             restarts_set=store.restarts(gs=(True,), dmgs=('keep',)), nkeys=1, sample=(1, 20) if q else (1, 6)),
        dict(name='sim', consts=dict(Keys='{1, 2}', MaxTs='2', Metas='{0, 1}'), genlen=30,
             acts=['write', 'delete', 'restart'] + LIFE_ALL[:8], preds=('always', 'ifactive'), nkeys=2,
             restarts_set=store.restarts(dmgs=('keep', 'lose')), simulate=300 if q else 6000, workers=1 if q else 8),
    ]

    def concurrent_counters(run, eng):
        # the counters at the quiescence of concurrent sessions with lifecycle calls: every blob file is a counted blob
        # and next_blob_id is the id after the highest one in the directory
        for i, (clients, ops, rt, life) in enumerate([(16, 60 if q else 300, 'mt', 150), (24, 40 if q else 200, 'mt', 300), (12, 60 if q else 300, 'ct', 150)]):
            h = dict(rt=rt, ks=8, bloom='off', group=2, seed=run.seed * 10 + i, wait=True)
            out = os.path.join(run.work, 'cnt-%d.out' % i)
            cmd = [os.path.join(BIN, 'conc'), '--cfg', json.dumps(h), '--clients', str(clients), '--ops', str(ops), '--keys', '8',
                   '--out', os.path.join(run.work, 'cnt-%d.conc' % i), '--sessions', '2', '--rounds', '6', '--lifecycle', str(life)]
            rc = subprocess.run(cmd, stdout=open(out, 'w'), stderr=open(out + '.err', 'w')).returncode
            if rc != 0:
                raise ToolError('concurrent driver failed (rc=%s, %s)' % (rc, out))
            for line in open(out, errors='replace'):
                if line.startswith('MISMATCH '):
                    rec = json.loads(line[9:])
                    m = rec['mismatches'][0]
                    if m['kind'] == 'accounting':
                        run.violation('C15', rec, 'counters at the quiescence of a concurrent session: %s' % json.dumps(m['got']))
            eng.replayed += 1
        run.log('counters compared at the quiescence of 3 concurrent runs')
    return store_check(run, mc, suites, extra=concurrent_counters)



IO_HCFGS = [
    dict(ks=4, bloom='small', group=8, rt='mt', wait=True, dirty_limit=0),
    dict(ks=4, bloom='small', group=2, rt='mt', wait=True, dirty_limit=1),
    dict(ks=8, bloom='off', group=3, rt='ct', wait=True, dirty_limit=100),
    dict(ks=4, bloom='small', group=8, rt='mt', wait=True, dirty_limit=4096),
    dict(ks=32, bloom='odd', group=2, rt='mt', wait=True),
    dict(ks=4, bloom='small', group=8, rt='mt', wait=False, dirty_limit=100),
]


def io_check(run, suites, judge_props, snapshots=True, conc_runs=None, design=None):
    """Generic shape of the trace-validation checks (PearlIO / TraceIO)."""
    se = store.StoreEngine(run)
    io = pvio.IOEngine(run, se)
    run.build()
    if design:
        io.tlc_states += design(run)
    first_trace = None
    for s in suites:
        s = dict(s)
        hcfgs = s.pop('hcfgs', IO_HCFGS)
        nkeys = s.pop('nkeys')
        limit = s.pop('limit', None)
        overrides = s.pop('hcfg_overrides', {})
        hc = [dict(h, **overrides) for h in hcfgs]
        r = se.generate(**s)
        traces, mm = io.record(r['out'], hc, nkeys, s['name'], limit=limit, snapshots=snapshots)
        os.remove(r['out'])
        se.judge(mm)
        jobs = []
        for i, (t, h) in enumerate(traces):
            if os.path.getsize(t) == 0:
                continue
            first_trace = first_trace or t
            jobs.append((t, h, 'tv-%s-%d' % (s['name'], i)))
        # one single-threaded TLC per trace, several at a time
        from concurrent.futures import ThreadPoolExecutor
        with ThreadPoolExecutor(max_workers=max(1, min(6, NCPU // 2))) as ex:
            for f in [ex.submit(io.judge_trace, *j) for j in jobs]:
                f.result()
    # schedules: the file-operation traces of concurrent runs (C12 over schedules), with a quiescence
    # point after every burst of operations
    for i, cr in enumerate(conc_runs or []):
        h = dict(cr['cfg'], seed=run.seed * 10 + i, wait=True)
        out = os.path.join(run.work, 'cio-%d.out' % i)
        tr = os.path.join(run.work, 'cio-%d.ndjson' % i)
        cmd = [os.path.join(BIN, 'conc'), '--cfg', json.dumps(h), '--clients', str(cr['clients']), '--ops', str(cr['ops']), '--keys', '8',
               '--out', os.path.join(run.work, 'cio-%d.conc' % i), '--io-out', tr, '--sessions', '2', '--rounds', str(cr.get('rounds', 10)),
               '--lifecycle', str(cr.get('lifecycle', 0))]
        rc = subprocess.run(cmd, stdout=open(out, 'w'), stderr=open(out + '.err', 'w')).returncode
        if rc != 0 or not os.path.exists(tr):
            raise ToolError('concurrent driver failed (rc=%s)' % rc)
        res = io.validate(tr, 'tv-conc-%d' % i)
        io.traces += 1
        nev = sum(1 for _ in open(tr))
        io.events += nev
        run.log('concurrent run %d (%d clients x %d ops, %s): %d events validated, ok=%s' % (i, cr['clients'], cr['ops'], h['rt'], nev, res['ok']))
        if not res['ok']:
            what = ('invariant %s violated after event %s' % (res['inv'], res['rejected_at'])) if res['inv'] else \
                   ('event %s is not a step the specification allows: %s' % (res['rejected_at'], json.dumps(res['event'])[:300]))
            prop = pvio.INV_PROP.get(res['inv']) if res['inv'] else pvio.REJECT_PROP.get((res['event'] or {}).get('ev'))
            ctx = io.context(tr, res['rejected_at'] or 1)
            if prop == run.prop:
                run.violation(prop, dict(kind='trace', harness_cfg=h, verdict=what, events=ctx), 'concurrent run, trace validation: ' + what)
            else:
                run.notes.append('concurrent trace problem attributed to %s: %s' % (prop, what[:200]))
    if first_trace and not run.violations:
        io.negative_controls(first_trace)
    run.assumptions += [
        'durability model: sync_all makes durable exactly the writes completed before it was called; content found at open is durable (as pearl assumes)',
        'the recorded order is the hook sequence number taken inside the I/O closure / under the lock, never a clock',
        'TLC explores nothing here: it replays each recording deterministically and evaluates the invariants after every event',
    ]
    return run.finish('model_checking', io.coverage())


def sync_design(run):
    """PearlSync: every schedule of writers, worker and sync task (small constants) ends with the
    un-synced acknowledged bytes within the limit; the two repaired deviations are shown to matter."""
    q = Q(run)
    states = 0
    inv = ['BoundedAtQuiescence', 'SyncedLeDurable', 'NoStuck']
    cfgs = [('sync-2x2-l0', dict(Writers='{1, 2}', OpsPerWriter='2', Limit='0'), q is False),
            ('sync-2x2-l1', dict(Writers='{1, 2}', OpsPerWriter='2', Limit='1'), False)]
    if not q:
        cfgs += [('sync-3x1-l0', dict(Writers='{1, 2, 3}', OpsPerWriter='1', Limit='0'), True),
                 ('sync-3x1-l1', dict(Writers='{1, 2, 3}', OpsPerWriter='1', Limit='1'), True),
                 ('sync-2x3-l1', dict(Writers='{1, 2}', OpsPerWriter='3', Limit='1'), False)]
    for name, consts, live in cfgs:
        c = dict(consts, Rerequest='TRUE', TrackInflight='TRUE')
        r = run.tlc('PearlSync', store.cfg_text('SSpec', c, inv, 'PROPERTY SyncTermination\n' if live else ''), name, workers=8, timeout=3000, heap='12g')
        states += r['distinct']
        run.log('TLC %s: %d distinct states, ok=%s' % (name, r['distinct'], r['ok']))
        if not r['ok']:
            ex = run.tlc_error_excerpt(r)
            if any('violated' in e for e in r['errors']):
                run.violation('C12', dict(kind='tlc-counterexample', config=name, text=ex), 'TLC: the sync scheduling design leaves un-synced bytes (%s)\n%s' % (name, ex[:2500]))
            else:
                print(ex[:3000])
                raise ToolError('TLC failed in %s' % name)
    # sensitivity of the model (negative control): each deviation as found in the pinned tree must be refuted
    for name, dev in [('sync-found-F18', dict(Rerequest='FALSE', TrackInflight='TRUE')), ('sync-found-F10', dict(Rerequest='TRUE', TrackInflight='FALSE'))]:
        c = dict(Writers='{1, 2}', OpsPerWriter='2', Limit='0', **dev)
        r = run.tlc('PearlSync', store.cfg_text('SSpec', c, ['BoundedAtQuiescence']), name, workers=8, timeout=1800, heap='8g')
        if r['ok'] or not any('BoundedAtQuiescence' in e for e in r['errors']):
            raise ToolError('negative control: PearlSync with %s was not refuted by TLC' % dev)
        run.log('negative control %s: refuted by TLC as expected' % name)
    run.assumptions.append('PearlSync is a design-level model (one step per atomic access of should_try_fsync / Inner::fsyncdata / try_run_fsync_task / File::fsyncdata); '
                           'its binding to the code is the file-operation trace of concurrent runs validated by TraceIO with a quiescence point after every burst')
    return states


def check_C12(run):
    q = Q(run)
    suites = [
        dict(name='sync-1k', consts=dict(Keys='{1}', MaxTs='2', Sizes='{"s", "e4k+"}'), genlen=4 if q else 5,
             acts=['write', 'delete', 'close_active', 'restore_active', 'create_active', 'fsync', 'restart'],
             restarts_set=store.restarts(lazies=(False,), dmgs=('keep',)), nkeys=1,
             sample=(1, 40) if q else (1, 4)),
        dict(name='sync-rot', consts=dict(Keys='{1}', MaxTs='1', MaxRecs='2'), genlen=3, suffix=1,
             acts=['write', 'delete', 'close_active', 'fsync', 'force_update'], nkeys=1,
             hcfg_overrides=dict(max_recs=2), sample=(1, 6) if q else (1, 1)),
        dict(name='sim', consts=dict(Keys='{1, 2}', MaxTs='3', Metas='{0, 1}', Sizes='{"s", "z0", "e4k+"}'), genlen=30,
             acts=['write', 'delete', 'fsync', 'restart', 'force_update', 'free_excess'] + LIFE3,
             restarts_set=store.restarts(dmgs=('keep', 'lose')), nkeys=2,
             simulate=200 if q else 4000, workers=1 if q else 8),
    ]
    conc = [dict(clients=16, ops=60 if q else 400, cfg=dict(rt='mt', ks=8, bloom='small', group=2, dirty_limit=200, max_recs=60)),
            dict(clients=24, ops=40 if q else 300, cfg=dict(rt='ct', ks=8, bloom='off', group=2, dirty_limit=0)),
            dict(clients=8, ops=80 if q else 600, cfg=dict(rt='mt', ks=8, bloom='off', group=2, dirty_limit=0)),
            dict(clients=32, ops=30 if q else 200, cfg=dict(rt='mt', ks=8, bloom='small', group=2, dirty_limit=1000, max_recs=200))]
    return io_check(run, suites, ['C12'], conc_runs=conc, design=sync_design)


def check_C07(run):
    q = Q(run)
    suites = [
        dict(name='harm-2k', consts=dict(Keys='{1, 2}', MaxTs='2'), genlen=4,
             acts=['write', 'delete', 'close_active', 'restore_active', 'create_active', 'force_update', 'restart'],
             restarts_set=store.restarts(), nkeys=2, sample=(1, 60) if q else (1, 4)),
        dict(name='harm-quarantine', consts=dict(Keys='{1}', MaxTs='1'), genlen=5 if q else 6,
             acts=['write', 'close_active', 'create_active', 'restart', 'restart_corrupt'],
             restarts_set=store.restarts(gs=(True,), dmgs=('keep',)), nkeys=1, sample=(1, 12) if q else (1, 1)),
        dict(name='harm-ignore', consts=dict(Keys='{1}', MaxTs='1', IgnoreCorrupted='TRUE'), genlen=5 if q else 6,
             acts=['write', 'close_active', 'create_active', 'restart', 'restart_corrupt'], hcfg_overrides=dict(ignore_corrupted=True),
             restarts_set=store.restarts(gs=(True,), dmgs=('keep',)), nkeys=1, sample=(1, 12) if q else (1, 1)),
        dict(name='sim', consts=dict(Keys='{1, 2}', MaxTs='3', Metas='{0, 1}', OffloadLevels='{0, 1}'), genlen=30,
             acts=['write', 'delete', 'restart', 'restart_corrupt'] + LIFE_ALL, preds=('always', 'ifactive'), nkeys=2,
             restarts_set=store.restarts(), simulate=200 if q else 4000, workers=1 if q else 8),
    ]
    # blob files under concurrency: several clients and the worker create, close, restore and replace the active blob
    # while data operations run; the complete file-operation trace must still be one PearlIO allows (a blob id is
    # created once, appends tile, nothing is written into a blob except by append)
    conc = [dict(clients=16, ops=60 if q else 400, rounds=4, lifecycle=120, cfg=dict(rt='mt', ks=8, bloom='small', group=2)),
            dict(clients=12, ops=60 if q else 400, rounds=4, lifecycle=200, cfg=dict(rt='mt', ks=8, bloom='off', group=3, max_recs=20)),
            dict(clients=16, ops=50 if q else 300, rounds=4, lifecycle=120, cfg=dict(rt='ct', ks=8, bloom='off', group=2))]
    return io_check(run, suites, ['C07'], conc_runs=conc)



def check_C09(run):
    q = Q(run)
    run.build()
    ie = pvindex.IndexEngine(run)
    pats = ('asc', 'desc', 'equal', 'zigzag')
    # KS = 1000: 3 headers per block, inner nodes of 3..5 children (pearl's constants for ArrayKey<1000>)
    ie.family('all-1000', 1000, 5 if q else 7, (1, 2, 3, 4, 7), patterns=pats[:3] if q else pats, delats=(0, 2),
              sample=(1, 6) if q else (1, 4))
    ie.family('perturb-1000', 1000, 22 if q else 90, (2, 4, 7), patterns=('asc',), family='perturb',
              perturb_from=10 if q else 1, sample=(1, 2) if q else (1, 1))
    # KS = 2000: one header per block, inner nodes of 2..3 children -> deep trees from few keys
    ie.family('perturb-2000', 2000, 16 if q else 60, (1, 2, 3), patterns=('zigzag',), family='perturb',
              perturb_from=1, sample=(1, 2) if q else (1, 1))
    # key lengths in the three remainder classes of the fan-out division (5 children per inner node, 4 headers per
    # leaf block): full inner nodes already with ~20 headers
    for ks in (807, 808, 809):
        if not q or ks == 809:
            ie.family('all-%d' % ks, ks, 5 if q else 8, (1, 2, 5, 9), patterns=('asc', 'equal') if q else pats, delats=(0, 2),
                      sample=(1, 4) if q else (1, 2))
        ie.family('perturb-%d' % ks, ks, 26 if q else 90, (1, 3, 4), patterns=('asc',), family='perturb', perturb_from=14 if q else 1,
                  sample=(1, 2) if q else (1, 1))
    if not q:
        ie.family('all-2000', 2000, 7, (1, 2, 3), patterns=pats, delats=(0, 1, 3), sample=(1, 2))
        ie.family('all-1300', 1300, 6, (1, 2, 3, 4), patterns=('asc', 'equal'), delats=(0, 2), sample=(1, 2))
        ie.family('perturb-1300', 1300, 70, (3, 4, 7), family='perturb', sample=(1, 2))
        ie.family('all-500', 500, 5, (1, 3, 7, 8, 15), patterns=('zigzag',), sample=(1, 2))
        ie.family('perturb-4', 4, 160, (40, 67, 68, 200), family='perturb', perturb_from=100, sample=(1, 8))
    run.assumptions += ['KS is a model constant: 1000 / 2000 / 807 / 808 / 809 (and 1300 / 500 / 4 in the thorough tier) are replayed with the same key length in the real storage',
                        'lookups below a deletion marker are not observable through Storage; full runs are compared in marker-free shapes']
    return run.finish('model_checking', ie.coverage())



def check_C10(run):
    q = Q(run)
    se = store.StoreEngine(run)
    run.build()
    # design level: the hierarchy algorithm never filters out a stored key (PearlFilters)
    for name, consts in [('filters-g2', dict(KeysF='{1, 2, 5}', NBits='4', GroupSize='2', MaxBlobs='3' if q else '4', Level='1')),
                         ('filters-g3', dict(KeysF='{1, 4}', NBits='3', GroupSize='3', MaxBlobs='4' if q else '5', Level='1')),
                         ('filters-nobloom', dict(KeysF='{1, 2, 5}', NBits='0', GroupSize='2', MaxBlobs='3' if q else '4', Level='1'))]:
        text = store.cfg_text('FSpec', consts, ['NoFalseNegative', 'ActiveNoFalseNegative', 'FileEqualsMemory'], 'CONSTRAINT FBound\n')
        r = run.tlc('PearlFilters', text, name, workers=8, timeout=3000)
        se.mc_states += r['distinct']
        se.mc_transitions += r['generated']
        run.log('TLC %s: %d generated / %d distinct, %.0fs ok=%s' % (name, r['generated'], r['distinct'], r['wall'], r['ok']))
        if not r['ok']:
            if r['rc'] == 124:
                raise ToolError('TLC time-out in %s' % name)
            ex = run.tlc_error_excerpt(r)
            if any('violated' in e for e in r['errors']):
                run.violation('C10', dict(kind='tlc-counterexample', config=name, text=ex), 'TLC: false negative in the filter hierarchy design (%s)\n%s' % (name, ex[:2500]))
            else:
                print(ex[:3000])
                raise ToolError('TLC failed in %s' % name)
    # code level: behaviours with many blobs, restores, deletes into closed blobs, off-loading
    hc = [dict(ks=4, bloom='small', group=2, rt='mt', wait=True), dict(ks=8, bloom='tiny', group=2, rt='mt', wait=True),
          dict(ks=4, bloom='odd', group=3, rt='ct', wait=True), dict(ks=32, bloom='off', group=2, rt='mt', wait=True),
          dict(ks=1, bloom='tiny', group=3, rt='mt', wait=True), dict(ks=4, bloom='small', group=2, rt='mt', wait=False),
          dict(ks=4, bloom='default', group=2, rt='mt', wait=True)]
    suites = [
        dict(name='filt-2k', consts=dict(Keys='{1, 2}', MaxTs='1', OffloadLevels='{0, 1, 2}'), genlen=5,
             acts=['write', 'delete', 'close_active', 'restore_active', 'offload', 'restart'],
             restarts_set=store.restarts(gs=(True,), dmgs=('keep', 'lose')), nkeys=2, sample=(1, 30) if q else (1, 6)),
        dict(name='sim', consts=dict(Keys='{1, 2, 3, 4}', MaxTs='2', OffloadLevels='{0, 1, 2, 3}'), genlen=40,
             acts=['write', 'delete', 'close_active', 'restore_active', 'create_active', 'force_update', 'offload', 'restart', 'free_excess'],
             restarts_set=store.restarts(dmgs=('keep', 'lose')), nkeys=4, simulate=250 if q else 4000, workers=1 if q else 8),
    ]
    for s in suites:
        s = dict(s)
        nkeys = s.pop('nkeys')
        r = se.generate(**s)
        mm = se.replay(r['out'], hc, nkeys, tag='-' + s['name'])
        se.judge(mm)
        os.remove(r['out'])
    # one behaviour per TRANSITION of the hierarchy model (GenFilters), executed on the real storage with the
    # model's group size; afterwards every written key must be found by every query and passed by every filter
    for name, consts, keep in [('edges-g3', dict(KeysF='{1, 2}', NBits='4', GroupSize='3', MaxBlobs='4', Level='1', OffLevels='{0, 1}'), (1, 40) if q else (1, 1)),
                               ('edges-g2', dict(KeysF='{1, 2}', NBits='4', GroupSize='2', MaxBlobs='4', Level='1', OffLevels='{1, 2}'), (1, 120) if q else (1, 2))]:
        c = dict(consts, SampleKeep=str(keep[0]), SampleMod=str(keep[1]), Seed=str(run.seed))
        text = store.cfg_text('GSpec', c, ['NoFalseNegative', 'ActiveNoFalseNegative'], 'VIEW GView\nCONSTRAINT FBound\nACTION_CONSTRAINT EmitEdge\n')
        r = run.tlc('GenFilters', text, name, workers=8, timeout=3000)
        se.mc_states += r['distinct']
        se.mc_transitions += r['generated']
        run.log('TLC %s: %d transitions / %d states of the hierarchy model, ok=%s' % (name, r['generated'], r['distinct'], r['ok']))
        if not r['ok']:
            raise ToolError('TLC failed in %s' % name)
        g = int(consts['GroupSize'])
        hcg = [dict(ks=4, bloom='small', group=g, rt='mt', wait=True), dict(ks=8, bloom='tiny', group=g, rt='ct', wait=True),
               dict(ks=4, bloom='default', group=g, rt='mt', wait=True), dict(ks=32, bloom='off', group=g, rt='mt', wait=True)]
        se.extra_args = ['--probe-written']
        mm = se.replay(r['out'], hcg, 2, tag='-' + name)
        se.extra_args = []
        se.judge(mm)
        os.remove(r['out'])
    run.assumptions += ['false positives are never an alarm; for absent keys only equality of the answers before and after off-loading is demanded',
                        'the abstract hash of PearlFilters has collisions by construction; real hashing (aHash) is exercised only through the replay']
    return run.finish('model_checking', se.coverage())



def check_C11(run):
    """I/O fault containment: behaviours re-executed with the n-th file operation of a kind failing;
    the recorded calls, results and answers are validated by TLC against TraceStore, where a failed
    call must have had no visible effect and everything acknowledged earlier stays served."""
    q = Q(run)
    se = store.StoreEngine(run)
    ts = pvts.TraceStoreEngine(run, se)
    run.build()
    suites = [
        dict(name='fault-big', consts=dict(Keys='{1}', MaxTs='2', Sizes='{"s", "e4k+"}'), genlen=3,
             acts=['write', 'close_active'], nkeys=1, sample=(1, 8) if q else (1, 3)),
        dict(name='fault-1k', consts=dict(Keys='{1}', MaxTs='2'), genlen=4,
             acts=['write', 'delete', 'close_active', 'restore_active', 'create_active', 'force_update'], nkeys=1,
             sample=(1, 150) if q else (1, 20)),
        dict(name='fault-2k', consts=dict(Keys='{1, 2}', MaxTs='2'), genlen=5,
             acts=['write', 'delete', 'close_active', 'create_active'], nkeys=2, sample=(1, 5000) if q else (1, 400)),
        # faults in a second session: the last blob of the first session is the active blob again (reopened file)
        dict(name='fault-reopen', consts=dict(Keys='{1}', MaxTs='2'), genlen=4,
             acts=['write', 'delete', 'restart', 'close_active'], restarts_set=store.restarts(gs=(True,), lazies=(False,), dmgs=('keep',)), nkeys=1,
             sample=(1, 8) if q else (1, 3)),
    ]
    total_exec = 0
    by_plan = {}
    for s in suites:
        s = dict(s)
        nkeys = s.pop('nkeys')
        r = se.generate(**s)
        # shards: each runs every fault plan over its share of the behaviours
        shards = min(NCPU, 12)
        files = [open(os.path.join(run.work, 'fshard-%s-%d.txt' % (s['name'], i)), 'w') for i in range(shards)]
        n = 0
        with open(r['out'], errors='replace') as f:
            for line in f:
                if line.startswith('<<"BEHAVIOUR"'):
                    files[n % shards].write(line)
                    n += 1
        for f in files:
            f.close()
        os.remove(r['out'])
        procs = []
        for i in range(shards):
            h = dict(ks=4 if i % 2 else 8, bloom='small', group=2 if i % 3 else 8, rt='mt' if i % 4 else 'ct', wait=True, seed=run.seed * 100 + i)
            out = os.path.join(run.work, 'fault-%s-%d.out' % (s['name'], i))
            tr = os.path.join(run.work, 'ftrace-%s-%d.ndjson' % (s['name'], i))
            cmd = [os.path.join(BIN, 'replay'), '--cfg', json.dumps(h), '--nkeys', str(nkeys), '--faults-out', tr]
            if not q:
                cmd.append('--dense')
            if s['name'] == 'fault-reopen':
                cmd.append('--arm-after-restart')
            procs.append((subprocess.Popen(cmd, stdin=open(files[i].name), stdout=open(out, 'w'), stderr=open(out + '.err', 'w')), out, tr, h))
        mism = []
        for p, out, tr, h in procs:
            rc = p.wait()
            ok = False
            for line in open(out, errors='replace'):
                if line.startswith('MISMATCH '):
                    mism.append(json.loads(line[9:]))
                elif line.startswith('RESULT '):
                    res = json.loads(line[7:])
                    ok = True
                    total_exec += res['executed']
                    for k, v in res.get('by_plan', {}).items():
                        by_plan[k] = by_plan.get(k, 0) + v
                    if res.get('sample') and len(run.samples) < 4:
                        run.samples.append(res['sample'])
            if rc != 0 or not ok:
                raise ToolError('fault replay failed rc=%s (%s)' % (rc, out))
        run.log('%s: %d behaviours x fault plans -> %d executions in which the fault fired, %d direct mismatches' % (s['name'], n, total_exec, len(mism)))
        for rec in mism:
            m = rec['mismatches'][0]
            facts = dict(kind=m['kind'], action=m.get('action', ''), sig=rec.get('sig', []), fault=rec.get('fault', ''))
            prop = 'C07' if m['kind'].startswith('blob_bytes') else 'C11'
            text = '%s under %s: expected %s got %s (behaviour: %s)' % (m['kind'], rec.get('fault'), json.dumps(m['expected'])[:150], json.dumps(m['got'])[:300], ' '.join(rec.get('sig', [])))
            if prop != 'C11':
                run.notes.append('attributed to %s: %s' % (prop, text[:200]))
                continue
            kf = match_known('C11', facts)
            if kf:
                line = 'KNOWN-FINDING: property=C11 %s: %s' % (kf.get('id', ''), kf.get('what', ''))
                if line not in run.known:
                    run.known.append(line)
            else:
                run.violation('C11', rec, text)

        def describe(ex, step):
            hist = ' '.join('%s%s' % (e.get('a', ''), '' if e.get('mode') in (None, 'normal') else '[' + e['mode'] + ']') for e in ex if e.get('ev') == 'step')
            faulted = [e for e in ex if e.get('mode') in ('failed', 'degraded')]
            fa = faulted[0]['a'] if faulted else ''
            steps_only = [e for e in ex if e.get('ev') == 'step']
            fi = next((i for i, e in enumerate(steps_only) if e.get('mode') in ('failed', 'degraded')), len(steps_only))
            after_failed = [e.get('a') for e in steps_only[fi + 1:]]
            text = ('execution not explained by the specification at step "%s" (mode %s, result %s/%s): history %s; observed %s'
                    % (step.get('a'), step.get('mode'), step.get('rt'), step.get('rn'), hist, json.dumps(step.get('obs'))[:400]))
            return text, dict(kind='store-trace', action=step.get('a', ''), faulted_action=fa, mode=step.get('mode', ''), after_failed=after_failed)

        from concurrent.futures import ThreadPoolExecutor
        jobs = [(tr, 'ts-%s-%s' % (s['name'], os.path.basename(tr)[7:-7])) for p, out, tr, h in procs if os.path.getsize(tr) > 0]
        with ThreadPoolExecutor(max_workers=6) as ex:
            list(ex.map(lambda j: ts.judge(j[0], j[1], dict(s['consts']), 'C11', describe), jobs))
        # negative control: one observed record count altered, one failed call given a visible effect
        if jobs and not run.violations:
            lines = open(jobs[0][0]).read().splitlines()[:400]
            evs = [json.loads(x) for x in lines]
            cut = next((i for i, e in enumerate(evs) if i > 0 and e.get('ev') == 'reset'), len(evs))
            one = [dict(e) for e in evs[:cut]]
            idx = next((i for i, e in enumerate(one) if e.get('ev') == 'step' and e.get('has_obs') == 1), None)
            if idx is not None:
                one[idx] = json.loads(json.dumps(one[idx]))
                one[idx]['obs']['records'] += 1
                pth = os.path.join(run.work, 'neg-store.ndjson')
                open(pth, 'w').write('\n'.join(json.dumps(e) for e in one) + '\n')
                if ts.validate(pth, 'neg-store', dict(s['consts']))['ok']:
                    raise ToolError('negative control failed: a trace with an altered record count was accepted by TraceStore')
                run.log('negative control: altered observation rejected')
    cov = dict(evaluations=total_exec, distinct_nontrivial=total_exec, fault_plans=by_plan,
               states=ts.states, traces_validated_against_impl=ts.traces, trace_steps=ts.steps,
               rule='one execution = one TLC-generated behaviour x one fault plan (operation kind, file class, n-th occurrence, '
                    'EIO / ENOSPC / short write) in which the fault actually fired; every call result and every answer after every '
                    'step, and after a final restart, is validated by TLC against TraceStore (failed call = no visible effect)')
    run.assumptions += ['faults are injected through the cfg(pearl_verif) I/O tap at the level of pearl\'s file operations, one per execution',
                        'a blob quarantined at the restart after a fault is accepted when its bytes are unchanged (snapshots); its records are then not compared']
    return run.finish('fault_enumeration', cov)



def check_C14(run):
    """Cancellation safety: for every operation of every behaviour and every k, the operation's future
    is polled k times and dropped; the recorded results and answers (immediately, after further
    operations and after a restart) are validated by TLC against TraceStore, where a dropped call may
    have taken effect entirely or not at all; blob files must still parse at the next start."""
    q = Q(run)
    se = store.StoreEngine(run)
    ts = pvts.TraceStoreEngine(run, se)
    run.build()
    suites = [
        dict(name='cancel-1k', consts=dict(Keys='{1}', MaxTs='2', Sizes='{"s", "e4k+"}'), genlen=3 if q else 4,
             acts=['write', 'delete', 'close_active', 'restore_active', 'create_active', 'fsync'], nkeys=1,
             sample=(1, 12) if q else (1, 3)),
        dict(name='cancel-life', consts=dict(Keys='{1}', MaxTs='1'), genlen=4 if q else 5,
             acts=['write', 'delete', 'close_active', 'restore_active'], nkeys=1, sample=(1, 3) if q else (1, 1)),
        dict(name='cancel-2k', consts=dict(Keys='{1, 2}', MaxTs='2'), genlen=4,
             acts=['write', 'delete', 'close_active', 'create_active'], nkeys=2, sample=(1, 400) if q else (1, 30)),
    ]
    total = 0
    by_op, polls = {}, {}
    for s in suites:
        s = dict(s)
        nkeys = s.pop('nkeys')
        r = se.generate(**s)
        shards = min(NCPU, 12)
        files = [open(os.path.join(run.work, 'cshard-%s-%d.txt' % (s['name'], i)), 'w') for i in range(shards)]
        n = 0
        for line in open(r['out'], errors='replace'):
            if line.startswith('<<"BEHAVIOUR"'):
                files[n % shards].write(line)
                n += 1
        for f in files:
            f.close()
        os.remove(r['out'])
        procs = []
        for i in range(shards):
            h = dict(ks=4 if i % 2 else 8, bloom='small', group=2 if i % 3 else 8, rt='ct' if i % 2 else 'mt', wait=True, seed=run.seed * 100 + i)
            out = os.path.join(run.work, 'cancel-%s-%d.out' % (s['name'], i))
            tr = os.path.join(run.work, 'ctrace-%s-%d.ndjson' % (s['name'], i))
            cmd = [os.path.join(BIN, 'replay'), '--cfg', json.dumps(h), '--nkeys', str(nkeys), '--cancel-out', tr,
                   '--max-polls', '16' if q else '48']
            procs.append((subprocess.Popen(cmd, stdin=open(files[i].name), stdout=open(out, 'w'), stderr=open(out + '.err', 'w')), out, tr, h))
        mism = []
        for p, out, tr, h in procs:
            rc = p.wait()
            ok = False
            for line in open(out, errors='replace'):
                if line.startswith('MISMATCH '):
                    mism.append(json.loads(line[9:]))
                elif line.startswith('RESULT '):
                    res = json.loads(line[7:])
                    ok = True
                    total += res['executed']
                    for k, v in res.get('by_plan', {}).items():
                        by_op[k] = by_op.get(k, 0) + v
                    for k, v in res.get('polls_to_complete', {}).items():
                        polls[k + ':' + h['rt']] = max(polls.get(k + ':' + h['rt'], 0), v)
                    if res.get('sample') and len(run.samples) < 4:
                        run.samples.append(res['sample'])
            if rc != 0 or not ok:
                raise ToolError('cancel replay failed rc=%s (%s)' % (rc, out))
        run.log('%s: %d behaviours -> %d executions with a dropped future, %d direct findings' % (s['name'], n, total, len(mism)))
        for rec in mism:
            m = rec['mismatches'][0]
            facts = dict(kind=m['kind'], action=m.get('action', ''), sig=rec.get('sig', []), got=str(m.get('got'))[:80])
            text = '%s: %s -> %s (behaviour: %s)' % (rec.get('fault'), m['kind'], json.dumps(m['got'])[:300], ' '.join(rec.get('sig', [])))
            kf = match_known('C14', facts)
            if kf:
                line = 'KNOWN-FINDING: property=C14 %s: %s' % (kf.get('id', ''), kf.get('what', ''))
                if line not in run.known:
                    run.known.append(line)
            else:
                run.violation('C14', rec, text)

        def describe(ex, step):
            hist = ' '.join('%s%s' % (e.get('a', ''), '' if e.get('mode') in (None, 'normal') else '[dropped]') for e in ex if e.get('ev') == 'step')
            dropped = [e for e in ex if e.get('mode') == 'maybe']
            da = dropped[0]['a'] if dropped else ''
            text = ('execution not explained by the specification at step "%s" (%s, result %s/%s): history %s; observed %s'
                    % (step.get('a'), step.get('mode'), step.get('rt'), step.get('rn'), hist, json.dumps(step.get('obs'))[:400]))
            return text, dict(kind='store-trace', action=step.get('a', ''), dropped_action=da, mode=step.get('mode', ''))

        from concurrent.futures import ThreadPoolExecutor
        jobs = [(tr, 'tc-%s-%s' % (s['name'], os.path.basename(tr)[7:-7])) for p, out, tr, h in procs if os.path.getsize(tr) > 0]
        with ThreadPoolExecutor(max_workers=6) as ex:
            list(ex.map(lambda j: ts.judge(j[0], j[1], dict(s['consts']), 'C14', describe), jobs))
        if jobs and not run.violations:
            ts.negative_control(jobs[0][0], dict(s['consts']), 'neg-cancel-' + s['name'])
    cov = dict(evaluations=total, distinct_nontrivial=total, dropped_operations=by_op, polls_needed_to_complete=polls,
               states=ts.states, traces_validated_against_impl=ts.traces, trace_steps=ts.steps,
               rule='one execution = one TLC-generated behaviour x one operation of it x k (the future is polled k times, with '
                    'background work advancing between polls, then dropped; k runs up to the number of polls the operation needs); '
                    'results and answers after every later step and after a restart are validated by TLC against TraceStore '
                    '(dropped call: entirely or not at all); blob files are re-parsed after the restart')
    run.assumptions += ['"entirely or not at all" is judged on the data queries, not on accounting (DESIGN 6)',
                        'suspension points are reached by letting background work advance 400 us between polls; lock-wait points are not forced']
    return run.finish('fault_enumeration', cov)


def check_C05(run):
    """Byte integrity: (1) behaviours whose writes use every payload size class around the single-buffer
    (4 KiB) and in-place I/O (80 KiB) thresholds and every metadata value are replayed with byte-for-byte
    comparison on both runtime flavours; (2) the cases of PearlBytes (altered data bytes of a stored
    record, index in memory / on disk / rebuilt with and without validation) are expanded to byte
    positions and patterns on the real storage."""
    q = Q(run)
    se = store.StoreEngine(run)
    run.build()
    sizes = '{"z0", "z1", "s", "e4k-", "e4k", "e4k+", "e80k-", "e80k", "e80k+", "big"}'
    suites = [
        dict(name='sizes', consts=dict(Keys='{1}', MaxTs='1', Metas='{0, 1, 2}', Sizes=sizes), genlen=2 if q else 3,
             acts=['write', 'close_active', 'restart'], restarts_set=store.restarts(gs=(True,), lazies=(False,), dmgs=('keep', 'lose')),
             nkeys=1, sample=(1, 3) if q else (1, 2),
             hcfgs=[dict(ks=4, bloom='small', group=8, rt='mt', wait=True), dict(ks=4, bloom='small', group=8, rt='ct', wait=True),
                    dict(ks=1000, bloom='off', group=2, rt='mt', wait=True), dict(ks=32, bloom='odd', group=2, rt='ct', wait=True)]),
    ]
    saved = run.prop
    for s in suites:
        s = dict(s)
        nkeys = s.pop('nkeys')
        hc = s.pop('hcfgs')
        r = se.generate(**s)
        run.prop = 'C01'         # the byte comparison is part of the read observables
        mm = se.replay(r['out'], hc, nkeys, tag='-' + s['name'])
        run.prop = saved
        os.remove(r['out'])
        for rec in mm:
            m = rec['mismatches'][0]
            run.violation('C05', rec, 'value not returned byte-for-byte: %s after %s expected %s got %s (behaviour: %s)' % (
                m['kind'], m['action'], json.dumps(m['expected'])[:120], json.dumps(m['got'])[:200], ' '.join(rec.get('sig', []))))
    # (2) altered bytes
    r = run.tlc('PearlBytes', 'SPECIFICATION BSpec\nINVARIANTS NeverServed Contained EmitBytesCase\nCHECK_DEADLOCK FALSE\n', 'bytes', workers=2, timeout=600)
    if not r['ok']:
        print(run.tlc_error_excerpt(r)[:3000])
        raise ToolError('TLC failed on PearlBytes')
    se.mc_states += r['distinct']
    shards = min(NCPU, 8)
    files = [open(os.path.join(run.work, 'bshard-%d.txt' % i), 'w') for i in range(shards)]
    n = 0
    for line in open(r['out'], errors='replace'):
        if line.startswith('<<"BYTECASE"'):
            files[n % shards].write(line)
            n += 1
    for f in files:
        f.close()
    procs = []
    for i in range(shards):
        out = os.path.join(run.work, 'bytes-%d.out' % i)
        cmd = [os.path.join(BIN, 'bytesck')] + ([] if q else ['--dense'])
        procs.append((subprocess.Popen(cmd, stdin=open(files[i].name), stdout=open(out, 'w'), stderr=open(out + '.err', 'w')), out))
    cases = 0
    for p, out in procs:
        rc = p.wait()
        ok = False
        for line in open(out, errors='replace'):
            if line.startswith('MISMATCH '):
                rec = json.loads(line[9:])
                m = rec['mismatches'][0]
                run.violation('C05', rec, 'altered data bytes, case %s: %s' % (json.dumps(rec['case']), json.dumps(m)[:300]))
            elif line.startswith('RESULT '):
                res = json.loads(line[7:])
                ok = True
                cases += res['cases']
                if res.get('sample') and len(run.samples) < 4:
                    run.samples.append(res['sample'])
        if rc != 0 or not ok:
            raise ToolError('bytesck failed rc=%s (%s)' % (rc, out))
    run.log('%d corruption cases expanded on the real storage' % cases)
    cov = dict(evaluations=se.replayed + cases, distinct_nontrivial=se.distinct + cases, replayed_behaviours=se.replayed,
               corruption_cases=cases, states=se.mc_states,
               rule='(1) every generated behaviour writes values of the size classes 0, 1, small, 4 KiB threshold -1/0/+1, 80 KiB threshold '
                    '-1/0/+1, 200 KiB with three metadata values and reads them back byte for byte (read, read_with, read_all + load), '
                    'before and after close / restart, on both runtime flavours; (2) every PearlBytes case (index state x record position) '
                    'with first / middle / last (thorough: every) byte of the data region x 1-bit, 8-bit and 32-bit patterns')
    run.assumptions += ['CRC32C detects every burst of at most 32 bits: assumed, not modelled',
                        'metadata bytes are compared on the round trip; altered metadata on disk is outside the property (no checksum covers it)']
    return run.finish('fault_enumeration', cov)


def check_C06(run):
    """Crash recovery: (a) crash images (kill: all completed writes; power loss: durable prefix plus none / all /
    torn later writes per file) built from recorded executions at every step boundary (thorough: after every
    I/O event) and recovered by the real init with data validation off and on; the recording extended with the
    crash and recovery events is validated by TLC against PearlIO (ImageAllowed, RecoveryOK); (b) real child
    processes killed with SIGKILL at random instants."""
    q = Q(run)
    se = store.StoreEngine(run)
    io = pvio.IOEngine(run, se)
    run.build()
    suites = [
        dict(name='crash-2k', consts=dict(Keys='{1, 2}', MaxTs='2', Sizes='{"s", "e4k+"}'), genlen=3 if q else 4,
             acts=['write', 'close_active', 'create_active'], nkeys=2, sample=(1, 17) if q else (1, 12)),
        # a second session before the crash: the last blob is active again while its index file from the first
        # session is still on disk (stale as soon as something is appended)
        dict(name='crash-reopen', consts=dict(Keys='{1, 2}', MaxTs='2'), genlen=4 if q else 5,
             acts=['write', 'close_active', 'restart'], restarts_set=store.restarts(gs=(True,), dmgs=('keep',)), nkeys=2,
             sample=(1, 12) if q else (1, 24)),
    ]
    if not q:
        # thorough: the larger sets of behaviours with images at step boundaries, and the behaviours of the quick
        # tier once more with an image after EVERY I/O event (the recording is written out once per image: the
        # size of the trace grows with the square of the behaviour's length)
        suites += [dict(name='crash-2k-dense', consts=dict(Keys='{1, 2}', MaxTs='2', Sizes='{"s", "e4k+"}'), genlen=3,
                        acts=['write', 'close_active', 'create_active'], nkeys=2, sample=(1, 60), dense=True),
                   dict(name='crash-reopen-dense', consts=dict(Keys='{1, 2}', MaxTs='2'), genlen=4,
                        acts=['write', 'close_active', 'restart'], restarts_set=store.restarts(gs=(True,), dmgs=('keep',)), nkeys=2,
                        sample=(1, 50), dense=True)]
    images = failed = 0
    kinds = {}
    for s in suites:
        s = dict(s)
        nkeys = s.pop('nkeys')
        dense = s.pop('dense', False)
        r = se.generate(**s)
        shards = min(NCPU, 12)
        files = [open(os.path.join(run.work, 'crshard-%d.txt' % i), 'w') for i in range(shards)]
        n = 0
        for line in open(r['out'], errors='replace'):
            if line.startswith('<<"BEHAVIOUR"'):
                files[n % shards].write(line)
                n += 1
        for f in files:
            f.close()
        os.remove(r['out'])
        procs = []
        for i in range(shards):
            h = dict(rt='mt' if i % 2 else 'ct', bloom='small', group=2, wait=True, seed=run.seed * 100 + i)
            out = os.path.join(run.work, 'crash-%d.out' % i)
            tr = os.path.join(run.work, 'crash-%d.ndjson' % i)
            cmd = [os.path.join(BIN, 'crash'), '--cfg', json.dumps(h), '--nkeys', str(nkeys), '--out', tr] + (['--dense'] if dense else [])
            procs.append((subprocess.Popen(cmd, stdin=open(files[i].name), stdout=open(out, 'w'), stderr=open(out + '.err', 'w')), out, tr, h))
        for p, out, tr, h in procs:
            rc = p.wait()
            ok = False
            for line in open(out, errors='replace'):
                if line.startswith('MISMATCH '):
                    rec = json.loads(line[9:])
                    m = rec['mismatches'][0]
                    run.violation('C06', rec, 'crash image %s: %s: %s' % (json.dumps(rec['case'])[:300], m['kind'], str(m.get('got'))[:300]))
                elif line.startswith('RESULT '):
                    res = json.loads(line[7:])
                    ok = True
                    images += res['images']
                    failed += res['failed']
                    for k, v in res.get('by_kind', {}).items():
                        kinds[k.split(':')[0] + (':' + k.split(':')[1].split('-', 1)[-1] if ':' in k and '-' in k else (':' + k.split(':')[1] if ':' in k else ''))] = kinds.get(k, 0) + v
                    if res.get('sample') and len(run.samples) < 3:
                        run.samples.append(res['sample'])
            if rc != 0 or not ok:
                raise ToolError('crash driver failed rc=%s (%s)' % (rc, out))
        run.log('%d behaviours -> %d crash images recovered, %d direct findings' % (n, images, failed))
        from concurrent.futures import ThreadPoolExecutor

        def val(j):
            tr, name = j
            res = io.validate(tr, name)
            io.traces += 1
            if not res['ok']:
                lines = open(tr).read().splitlines()
                at = res['rejected_at'] or 1
                ev = json.loads(lines[at - 1]) if at - 1 < len(lines) else {}
                start = at - 1
                while start > 0 and '"ev":"reset"' not in lines[start].replace(' ', ''):
                    start -= 1
                ctx = [json.loads(x) for x in lines[start:at]]
                brief = [dict((k, e[k]) for k in e if k in ('ev', 'f', 'off', 'len', 'a', 'op', 'cuts', 'acked', 'served', 'quar', 'restored', 'label', 'validate')) for e in ctx if e.get('ev') not in ('call', 'ret', 'quiescent')]
                what = res['inv'] or ('event %s not allowed' % ev.get('ev'))
                run.violation('C06', dict(kind='crash-trace', verdict=what, events=brief[-60:]),
                              'crash / recovery not allowed by the specification (%s): %s' % (what, json.dumps(ev)[:400]))
        jobs = [(tr, 'tvc-%d' % i) for i, (p, out, tr, h) in enumerate(procs) if os.path.getsize(tr) > 0]
        with ThreadPoolExecutor(max_workers=6) as ex:
            list(ex.map(val, jobs))
    # (b) real kills
    kills = 0
    acked = 0
    kprocs = []
    for i, rtn in enumerate(['mt', 'ct'] * (1 if q else 4)):
        out = os.path.join(run.work, 'kill-%d.out' % i)
        cmd = [os.path.join(BIN, 'crash'), '--kills', str(8 if q else 40), '--rt', rtn, '--seed', str(run.seed * 10 + i)]
        kprocs.append((subprocess.Popen(cmd, stdout=open(out, 'w'), stderr=open(out + '.err', 'w')), out))
    for p, out in kprocs:
        rc = p.wait()
        ok = False
        for line in open(out, errors='replace'):
            if line.startswith('MISMATCH '):
                rec = json.loads(line[9:])
                m = rec['mismatches'][0]
                run.violation('C06', rec, 'after SIGKILL %s: %s' % (json.dumps(rec['case']), str(m.get('got'))[:300]))
            elif line.startswith('RESULT '):
                res = json.loads(line[7:])
                ok = True
                kills += res['kills']
                acked += res['acked_records']
        if rc != 0 or not ok:
            raise ToolError('kill driver failed rc=%s (%s)' % (rc, out))
    run.log('%d real kills, %d acknowledged records checked' % (kills, acked))
    if not run.violations and jobs:
        # negative control: a kill image from which an acknowledged record is not served must be rejected
        lines = [json.loads(x) for x in open(jobs[0][0]).read().splitlines()]
        idx = next((i for i, e in enumerate(lines) if e.get('ev') == 'recovered' and e.get('op') == 'kill' and e.get('served')), None)
        if idx is not None:
            start = max(i for i in range(idx) if lines[i].get('ev') == 'reset')
            one = json.loads(json.dumps(lines[start:idx + 1]))
            one[-1]['served'] = one[-1]['served'][:-1]
            pth = os.path.join(run.work, 'neg-crash.ndjson')
            open(pth, 'w').write('\n'.join(json.dumps(e) for e in one) + '\n')
            if io.validate(pth, 'neg-crash')['ok']:
                raise ToolError('negative control failed: a kill image that lost an acknowledged record was accepted')
            run.log('negative control: lost record after a kill rejected')
    cov = dict(evaluations=images + kills, distinct_nontrivial=images + kills, crash_images=images, image_kinds=kinds, real_kills=kills,
               acked_records_checked_after_kills=acked, states=io.tlc_states, traces_validated_against_impl=io.traces,
               rule='an image = (behaviour, crash point, kind: kill / durable-only / one file complete / torn write at a length, data '
                    'validation off / on); each is recovered by the real init, then a write + restart checks usability; a real kill = '
                    'SIGKILL of a writing child process at a random instant, twice per directory')
    run.assumptions += ['power-loss model: per file the durable prefix (writes completed before the call of a completed sync) plus a prefix of the '
                        'later writes, the last possibly torn; no reordering below a sync, no directory-entry loss',
                        'deletes are not in the crash alphabets (every record must be observable through read_all)',
                        'the real-kill part is judged by the kill clause of RecoveryOK applied by the driver (acked records served or restorable); it is not a TLC run']
    return run.finish('fault_enumeration', cov)


def check_C08(run):
    """Concurrent clients: deadlock freedom of the synchronisation skeleton (PearlConc, TLC) and
    trace validation of real concurrent executions against TraceConc."""
    import re
    q = Q(run)
    run.build()
    states = trans = 0
    # design level: the required discipline (requests sent after the storage lock is released) has no deadlock
    for name, consts in [('conc-3x2', dict(Clients='{1, 2, 3}', Cap='1', OpsPerClient='2', SendUnderLock='FALSE')),
                         ('conc-4x2', dict(Clients='{1, 2, 3, 4}', Cap='2', OpsPerClient='2' if q else '3', SendUnderLock='FALSE'))]:
        r = run.tlc('PearlConc', store.cfg_text('CSpec', consts, ['NoDeadlock', 'LockOK'], 'PROPERTY Termination\n'), name, workers=4, timeout=1800)
        states += r['distinct']
        trans += r['generated']
        run.log('TLC %s: %d distinct states, ok=%s' % (name, r['distinct'], r['ok']))
        if not r['ok']:
            ex = run.tlc_error_excerpt(r)
            if any('violated' in e for e in r['errors']):
                run.violation('C08', dict(kind='tlc-counterexample', config=name, text=ex), 'TLC: deadlock in the synchronisation design (%s)\n%s' % (name, ex[:2500]))
            else:
                print(ex[:3000])
                raise ToolError('TLC failed in %s' % name)
    # code level
    runs = [
        dict(name='mt-8', clients=8, ops=60 if q else 400, keys=10, cfg=dict(rt='mt', ks=8, bloom='small', group=2)),
        dict(name='ct-32', clients=32, ops=20 if q else 100, keys=12, cfg=dict(rt='ct', ks=8, bloom='small', group=3)),
        dict(name='mt-rot-64', clients=64, ops=12 if q else 60, keys=15, cfg=dict(rt='mt', ks=8, bloom='odd', group=2, max_recs=40)),
        dict(name='ct-rot-16', clients=16, ops=30 if q else 120, keys=6, cfg=dict(rt='ct', ks=8, bloom='off', group=2, max_recs=25)),
        dict(name='mt-life-24', clients=24, ops=40 if q else 200, keys=8, cfg=dict(rt='mt', ks=8, bloom='small', group=2), lifecycle=100),
        dict(name='ct-life-16', clients=16, ops=50 if q else 250, keys=6, cfg=dict(rt='ct', ks=8, bloom='off', group=3, max_recs=30), lifecycle=80),
        # the default mode of the library (duplicates not allowed: every write first asks whether the key is there) with
        # lifecycle calls; only termination and the blob files are judged here (a skipped duplicate write has no commit)
        dict(name='mt-nodup-life-24', clients=24, ops=60 if q else 300, keys=40, cfg=dict(rt='mt', ks=8, bloom='small', group=2, allow_dup=False),
             lifecycle=150, skip_trace=True, deadline=60),
        # one client closes the active blob, waits for its index dump and restores it, again and again, while the others read
        dict(name='mt-restore-12', clients=12, ops=150 if q else 800, keys=12, cfg=dict(rt='mt', ks=8, bloom='small', group=2), restore=True),
        dict(name='ct-1100', clients=1100, ops=2, keys=20, cfg=dict(rt='ct', ks=8, bloom='off', group=8, max_recs=5), deadline=45),
        dict(name='mt-3000', clients=3000, ops=1 if q else 3, keys=20, cfg=dict(rt='mt', ks=8, bloom='off', group=8, max_recs=200), deadline=60),
    ]
    procs = []
    for i, rn in enumerate(runs):
        h = dict(rn['cfg'], seed=run.seed * 10 + i, wait=True)
        out = os.path.join(run.work, 'conc-%s.out' % rn['name'])
        tr = os.path.join(run.work, 'conc-%s.ndjson' % rn['name'])
        cmd = [os.path.join(BIN, 'conc'), '--cfg', json.dumps(h), '--clients', str(rn['clients']), '--ops', str(rn['ops']),
               '--keys', str(rn['keys']), '--out', tr, '--sessions', '2', '--deadline-s', str(rn.get('deadline', 90)),
               '--lifecycle', str(rn.get('lifecycle', 0))] + (['--restore-mode'] if rn.get('restore') else [])
        procs.append((subprocess.Popen(cmd, stdout=open(out, 'w'), stderr=open(out + '.err', 'w')), out, tr, rn, h))
    total_ops = events = traces = 0
    for p, out, tr, rn, h in procs:
        rc = p.wait()
        ok = False
        for line in open(out, errors='replace'):
            if line.startswith('MISMATCH '):
                rec = json.loads(line[9:])
                m = rec['mismatches'][0]
                if m['kind'] == 'accounting':
                    run.notes.append('counters at quiescence of %s (C15): %s' % (rn['name'], json.dumps(m['got'])))
                    continue
                facts = dict(kind=m['kind'], rt=h['rt'], clients=rn['clients'])
                text = 'concurrent run %s (%d clients, %s): %s: %s' % (rn['name'], rn['clients'], h['rt'], m['kind'], str(m['got'])[:300])
                kf = match_known('C08', facts)
                if kf:
                    line2 = 'KNOWN-FINDING: property=C08 %s: %s' % (kf.get('id', ''), kf.get('what', ''))
                    if line2 not in run.known:
                        run.known.append(line2)
                else:
                    run.violation('C08', rec, text)
            elif line.startswith('RESULT '):
                res = json.loads(line[7:])
                ok = True
                total_ops += res['ops_total']
                events += res['events']
        if rc != 0 or not ok:
            raise ToolError('concurrent driver failed rc=%s (%s)' % (rc, out))
        if not os.path.exists(tr) or os.path.getsize(tr) == 0 or rn.get('skip_trace'):
            continue
        r = run.tlc('TraceConc', 'SPECIFICATION TraceSpec\nPOSTCONDITION TraceAccepted\nCHECK_DEADLOCK FALSE\n', 'tc-' + rn['name'], workers=1,
                    timeout=3000, java_opts='-Xss1g -Dtlc2.tool.queue.IStateQueue=StateDeque', env_extra={'TRACE': tr}, heap='8g')
        states += r['distinct']
        traces += 1
        if not r['ok']:
            text = open(r['out'], errors='replace').read()
            m = re.search(r'<<"TRACE-REJECTED", (\d+), "(.*)">>', text)
            if not m:
                print(text[-3000:])
                raise ToolError('TLC failed on concurrent trace %s' % tr)
            at = int(m.group(1))
            lines = open(tr).read().splitlines()
            ev = json.loads(lines[at - 1])
            ctx = [json.loads(x) for x in lines[max(0, at - 40):at]]
            related = [e for e in ctx if e.get('opid') == ev.get('opid') or e.get('k') == ev.get('k')]
            # everything the rejected key went through, for the replay file (the recording itself is scratch)
            keyhist = [e for e in (json.loads(x) for x in lines[:at]) if e.get('k') == ev.get('k') or e.get('ev') in ('activate', 'reopen', 'reset')
                       or e.get('opid') == ev.get('opid')]
            inv = next((e for e in keyhist if e.get('ev') == 'inv' and e.get('opid') == ev.get('opid')), None)
            if inv:
                keyhist = [e for e in (json.loads(x) for x in lines[:at]) if e.get('k') == inv.get('k') or e.get('ev') in ('activate', 'reopen', 'reset')
                           or e.get('opid') in set(x.get('opid') for x in (json.loads(y) for y in lines[:at]) if x.get('k') == inv.get('k'))]
            related = keyhist[-400:] + related[-25:]
            run.violation('C08', dict(kind='conc-trace', run=rn, harness_cfg=h, rejected_event=ev, related_events=related),
                          'concurrent run %s: event %d is not explained by any linearization: %s' % (rn['name'], at, json.dumps(ev)[:300]))
        elif len(run.samples) < 3:
            run.samples.append(dict(run=rn['name'], clients=rn['clients'], first_events=[json.loads(x) for x in open(tr).read().splitlines()[1:6]]))
    # negative control: a read response replaced by a value never written must be rejected
    if not run.violations:
        tr = procs[0][2]
        lines = [json.loads(x) for x in open(tr).read().splitlines()]
        idx = next((i for i, e in enumerate(lines) if e.get('ev') == 'resp' and e.get('rt') == 'F'), None)
        if idx is not None:
            lines[idx]['rn'] = 987654
            pth = os.path.join(run.work, 'neg-conc.ndjson')
            open(pth, 'w').write('\n'.join(json.dumps(e) for e in lines[:idx + 5]) + '\n')
            r = run.tlc('TraceConc', 'SPECIFICATION TraceSpec\nPOSTCONDITION TraceAccepted\nCHECK_DEADLOCK FALSE\n', 'neg-conc', workers=1,
                        timeout=600, java_opts='-Xss1g -Dtlc2.tool.queue.IStateQueue=StateDeque', env_extra={'TRACE': pth})
            if r['ok']:
                raise ToolError('negative control failed: a read of a value that was never written was accepted by TraceConc')
            run.log('negative control: altered read rejected by TraceConc')
    cov = dict(states=states, transitions=max(trans, 1), traces_validated_against_impl=traces, client_operations=total_ops, trace_events=events,
               evaluations=total_ops, distinct_nontrivial=traces,
               rule='schedules are whatever the OS and the tokio runtimes produce for N client tasks (8 .. 3000) on multi-thread and '
                    'current-thread runtimes, with rotation, dumps and a second session on reopened blobs; every execution is validated '
                    'completely by TLC against TraceConc (commit events under the blob lock are the linearization points)')
    run.assumptions += ['schedules are sampled, not enumerated, on the code; exhaustive interleaving only in the PearlConc model (3-4 clients)',
                        'a run whose clients do not finish within the deadline (45-90 s for <= 3000 one- or two-operation clients) is reported as a deadlock']
    return run.finish('model_checking', cov)


def check_C16(run):
    """Offline tools: PearlTools gives, for every blob size and every single damage, the allowed outcomes;
    the harness expands each abstract damage into concrete bytes and runs the real tools."""
    q = Q(run)
    run.build()
    consts = dict(MaxN='3' if q else '4')
    invs = ['NoLoss', 'OnlyIntact', 'SkipRecoversMore', 'AfterIsolatedDamage', 'AcceptIffWellFormed', 'IdxAcceptIffProduced', 'IdxReadNeverWrong', 'MigratePreserves', 'EmitCase']
    r = run.tlc('GenTools', store.cfg_text('Spec', consts, invs), 'tools', workers=4, timeout=1200)
    run.log('TLC tools: %d cases, ok=%s' % (r['distinct'], r['ok']))
    if not r['ok']:
        ex = run.tlc_error_excerpt(r)
        if any('violated' in e for e in r['errors']):
            run.violation('C16', dict(kind='tlc-counterexample', text=ex), 'TLC: the case analysis of PearlTools is inconsistent with the property\n' + ex[:2500])
            return run.finish('fault_enumeration', dict(evaluations=1, distinct_nontrivial=2, rule='TLC only'))
        print(ex[:3000])
        raise ToolError('TLC failed on PearlTools')
    shards = min(NCPU, 12)
    files = [open(os.path.join(run.work, 'tshard-%d.txt' % i), 'w') for i in range(shards)]
    n = 0
    for line in open(r['out'], errors='replace'):
        if line.startswith('<<"TOOLCASE"'):
            files[n % shards].write(line)
            n += 1
    for f in files:
        f.close()
    procs = []
    for i in range(shards):
        out = os.path.join(run.work, 'tools-%d.out' % i)
        cmd = [os.path.join(BIN, 'tools')] + ([] if q else ['--dense'])
        procs.append((subprocess.Popen(cmd, stdin=open(files[i].name), stdout=open(out, 'w'), stderr=open(out + '.err', 'w')), out))
    cases = variants = 0
    kinds = {}
    for p, out in procs:
        rc = p.wait()
        ok = False
        for line in open(out, errors='replace'):
            if line.startswith('MISMATCH '):
                rec = json.loads(line[9:])
                m = rec['mismatches'][0]
                facts = dict(kind=m.get('tool', ''), region=rec['case']['dmg']['region'], dmg=rec['case']['dmg']['kind'], skip=m.get('skip'))
                text = 'case %s: %s' % (json.dumps(rec['case']), json.dumps(m)[:400])
                kf = match_known('C16', facts)
                if kf:
                    line2 = 'KNOWN-FINDING: property=C16 %s: %s' % (kf.get('id', ''), kf.get('what', ''))
                    if line2 not in run.known:
                        run.known.append(line2)
                else:
                    run.violation('C16', rec, text)
            elif line.startswith('RESULT '):
                res = json.loads(line[7:])
                ok = True
                cases += res['cases']
                variants += res['variants']
                for k, v in res.get('kinds', {}).items():
                    kinds[k] = kinds.get(k, 0) + v
                if res.get('sample') and len(run.samples) < 4:
                    run.samples.append(res['sample'])
        if rc != 0 or not ok:
            raise ToolError('tools process failed rc=%s (%s)' % (rc, out))
    run.log('%d cases expanded into %d byte-level variants' % (cases, variants))
    cov = dict(evaluations=variants, distinct_nontrivial=cases, states=r['distinct'], damage_classes=kinds,
               rule='a case = (number of records, one abstract damage: truncation inside a region / at a record boundary / in the '
                    'blob header, or one altered byte in a region); every case is expanded to concrete byte positions and xor '
                    'patterns; validate_blob, recovery_blob (plain / skipping, validate_every 0 / 1), move_and_recover_blob run on each; '
                    'the output is validated and opened by the real storage; the served set must be one the specification allows')
    run.assumptions += ['metadata bytes are not protected by any checksum: altered metadata that still parses is tolerated',
                        'a damaged size field (meta_size, data_size, key length prefix) makes later records unlocatable: only the records before it are demanded',
                        'blob header version / flags are not checked by the tools (validate_without_version): either verdict accepted']
    return run.finish('fault_enumeration', cov)



def check_C17(run):
    """On-disk format compatibility: the committed corpus (written once by the pinned release from
    TLC-generated behaviours, see corpusgen/) is opened by the current code."""
    run.build()
    corpus = os.path.join(VERIF, 'corpus')
    out = os.path.join(run.work, 'corpus.out')
    rc = subprocess.run([os.path.join(BIN, 'corpus'), corpus], stdout=open(out, 'w'), stderr=open(out + '.err', 'w')).returncode
    res = None
    for line in open(out, errors='replace'):
        if line.startswith('MISMATCH '):
            rec = json.loads(line[9:])
            m = rec['mismatches'][0]
            run.violation('C17', rec, 'corpus case %s: %s' % (json.dumps(rec['case']), json.dumps(m)[:400]))
        elif line.startswith('RESULT '):
            res = json.loads(line[7:])
    if rc != 0 or res is None:
        raise ToolError('corpus check failed to run (rc=%s)' % rc)
    run.samples.append(res['sample'])
    run.log('%d corpus directories, %d open / damage combinations, %d failed' % (res['directories'], res['combinations'], res['failed']))
    cov = dict(evaluations=res['combinations'], distinct_nontrivial=res['directories'],
               rule='one directory = one TLC-generated behaviour (writes with and without metadata, deletion markers, blob switches, '
                    'restarts) executed by the PINNED release for key sizes 4 / 8 / 32 with and without bloom filter, answers '
                    'cross-checked against the specification when recorded; each is opened (eager and lazy) with every '
                    'present / absent combination of its index files, with another key size, and with patched blob / index '
                    'format versions',
               exhaustive=True)
    run.assumptions += ['the TLA+ part is the scenario generator and the expected answers; byte layout, hash seeds and bit order are pinned by the files',
                        'another key size must never be served: an init error or a storage serving no record (blobs set aside) both count as rejected']
    return run.finish('exploration', cov)


CHECKS = {'C01': check_C01, 'C02': check_C02, 'C03': check_C03, 'C04': check_C04, 'C05': check_C05, 'C06': check_C06, 'C07': check_C07, 'C08': check_C08, 'C09': check_C09, 'C10': check_C10, 'C11': check_C11,
          'C12': check_C12, 'C13': check_C13, 'C14': check_C14, 'C15': check_C15, 'C16': check_C16, 'C17': check_C17}



def main(argv):
    ap = argparse.ArgumentParser()
    ap.add_argument('prop')
    ap.add_argument('--tier', default=os.environ.get('VERIF_TIER', 'quick'))
    ap.add_argument('--replay')
    a = ap.parse_args(argv)
    seed = int(os.environ.get('VERIF_SEED', '1') or 1)
    if a.prop not in CHECKS:
        print('no check for', a.prop)
        return 2
    run = Run(a.prop, a.tier, seed)
    try:
        if a.replay:
            from . import replaycmd
            return replaycmd.replay(run, a.replay)
        return CHECKS[a.prop](run)
    except ToolError as e:
        print('TOOL-ERROR:', e)
        return 2
    except Exception:
        traceback.print_exc()
        return 2
    finally:
        if not os.environ.get('VERIF_KEEP'):
            run.cleanup()
