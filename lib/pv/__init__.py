import argparse, json, os, sys, traceback
from .common import *
from . import store


HCFGS_VARIETY = [
    dict(ks=4, bloom='small', group=8, rt='mt', wait=True),
    dict(ks=1, bloom='off', group=2, rt='mt', wait=True),
    dict(ks=32, bloom='odd', group=3, rt='ct', wait=True),
    dict(ks=4, bloom='small', group=2, rt='mt', wait=False),
    dict(ks=1000, bloom='small', group=8, rt='mt', wait=True),
    dict(ks=8, bloom='tiny', group=2, rt='ct', wait=True),
    dict(ks=4, bloom='odd', group=3, rt='mt', wait=True, deferred_fires=False),
]


def store_check(run, mc, suites, level='model_checking'):
    """Generic shape of the PearlStore-based checks."""
    eng = store.StoreEngine(run)
    run.build()
    for m in mc:
        if os.environ.get('VERIF_SKIP_MC'):
            break
        eng.model_check(**m)
    for s in suites:
        s = dict(s)
        hcfgs = s.pop('hcfgs', HCFGS_VARIETY)
        nkeys = s.pop('nkeys')
        limit = s.pop('limit', None)
        overrides = s.pop('hcfg_overrides', {})
        hc = [dict(h, **overrides) for h in hcfgs]
        r = eng.generate(**s)
        mm = eng.replay(r['out'], hc, nkeys, limit=limit, tag='-' + s['name'])
        eng.judge(mm)
        os.remove(r['out'])
    cov = eng.coverage()
    run.assumptions += [
        'TLC explores the specification within the stated constants only (small scope)',
        'the harness maps abstract keys / values / metadata to concrete bytes (harness/src/drive.rs); expected values come from TLC only',
        'background work is waited for through the cfg(pearl_verif) probe, never by sleeping',
    ]
    return run.finish(level, cov)


Q = lambda run: run.tier == 'quick'
LIFE3 = ['close_active', 'restore_active', 'create_active']


def check_C01(run):
    q = Q(run)
    mc = [dict(name='mc-c01', consts=dict(Keys='{1}', Metas='{0}', MaxRecs='0'), max_ops=3 if q else 4, max_blob=2)]
    suites = [
        dict(name='2k-switch', consts=dict(Keys='{1, 2}', MaxTs='2'), genlen=4,
             acts=['write', 'delete', 'restart'] + LIFE3,
             restarts_set=store.restarts(gs=(True,), dmgs=('keep', 'lose')), nkeys=2,
             sample=(1, 24) if q else (1, 1)),
        dict(name='1k-deep', consts=dict(Keys='{1}', MaxTs='2'), genlen=6 if q else 7,
             acts=['write', 'delete', 'close_active', 'restart'],
             restarts_set=store.restarts(gs=(True,), lazies=(False,), dmgs=('keep', 'lose')), nkeys=1,
             sample=(1, 120) if q else (1, 4)),
        dict(name='sim', consts=dict(Keys='{1, 2}', MaxTs='3', Metas='{0, 1}'), genlen=24,
             acts=['write', 'delete', 'restart', 'force_update', 'free_excess'] + LIFE3,
             restarts_set=store.restarts(), nkeys=2, simulate=400 if q else 20000, workers=1 if q else 8),
    ]
    return store_check(run, mc, suites)


CHECKS = {'C01': check_C01}


def main(argv):
    ap = argparse.ArgumentParser()
    ap.add_argument('prop')
    ap.add_argument('--tier', default=os.environ.get('VERIF_TIER', 'quick'))
    ap.add_argument('--replay')
    a = ap.parse_args(argv)
    seed = int(os.environ.get('VERIF_SEED', '1') or 1)
    if a.prop not in CHECKS:
        print('no check for', a.prop)
        return 2
    run = Run(a.prop, a.tier, seed)
    try:
        if a.replay:
            from . import replaycmd
            return replaycmd.replay(run, a.replay)
        return CHECKS[a.prop](run)
    except ToolError as e:
        print('TOOL-ERROR:', e)
        return 2
    except Exception:
        traceback.print_exc()
        return 2
    finally:
        if not os.environ.get('VERIF_KEEP'):
            run.cleanup()
