"""Checks decided on PearlStore: TLC model checking of the specification plus replay of
TLC-generated behaviours (GenStore) on the real storage.  C01 C02 C03 C04 C13 C15."""
import json, os, subprocess, time, collections
from .common import *

BASE_CONSTS = dict(Keys='{1, 2}', MaxTs='2', Metas='{0}', Sizes='{"s"}', AllowDup='TRUE', MaxRecs='0',
                   Quiesce='TRUE', DeferredFires='TRUE', Deterministic='TRUE', OffloadLevels='{}',
                   RestoreLoadsIndex='TRUE', WorkerSurvives='TRUE', HolesCounted='FALSE',
                   QuarIdsReserved='TRUE', IgnoreCorrupted='FALSE')

ALL_INVS = ['TypeOK', 'KeyObsOK', 'ReadOK', 'ContainsOK', 'ReadAllOK', 'ReadWithOK', 'DupOK', 'OrderLemma',
            'IndexIsCache', 'StaleIndexNeverUsed', 'ActiveWritable', 'IdsAboveAllUsed',
            'WorkerRunning', 'NoOrphanBlob']


def cfg_text(spec, consts, invs=None, extra=''):
    t = 'SPECIFICATION %s\nCONSTANTS\n' % spec
    for k, v in consts.items():
        t += '  %s = %s\n' % (k, v)
    if invs:
        t += 'INVARIANTS ' + ' '.join(invs) + '\n'
    t += 'CHECK_DEADLOCK FALSE\n' + extra
    return t


def tla_set(items):
    return '{' + ', '.join(items) + '}'


def tla_str_set(items):
    return tla_set(['"%s"' % i for i in items])


def restarts(gs=(True, False), lazies=(False, True), dmgs=('keep', 'lose', 'stale')):
    out = []
    for g in gs:
        for lz in lazies:
            for d in dmgs:
                out.append(str((1 if g else 0) + (2 if lz else 0) + 4 * ('keep', 'lose', 'stale').index(d)))
    return tla_set(out)


# ---------------------------------------------------------------------------------------
# attribution of a mismatch to properties
DATA = ('write', 'delete')
RESTART = ('restart',)


def props_of(m):
    kind, action = m['kind'], m['action']
    base = kind.split('[')[0]
    ps = set()
    if base in ('read', 'contains', 'read_absent', 'contains_absent'):
        ps.add('C01')
    if base in ('all_wm', 'read_all', 'read_with', 'all_wm_absent'):
        ps.add('C02')
    if base in ('ret.delete', 'ret.write'):
        errored = isinstance(m.get('got'), dict) and m['got'].get('t') == 'err'
        if not errored:
            ps.add('C02')          # wrong delete count / duplicate policy
        elif m.get('after_lifecycle'):
            ps.add('C04')          # the storage stopped accepting writes / deletes
        else:
            ps |= {'C01', 'C02'}   # a plain write / delete failed
    if base.startswith('counts.'):
        ps.add('C15')
    if base in ('check_filters', 'check_filter', 'filter_offload_diff', 'filter_false_negative'):
        ps.add('C10')
    if base == 'filter_false_negative':
        ps.add('C04')      # a written key that a query no longer finds after lifecycle / maintenance calls
    if base.startswith('blob_bytes'):
        ps.add('C07')
    if base in ('worker_alive', 'close'):
        ps.add('C13')
    query = base in ('read', 'contains', 'read_absent', 'contains_absent', 'all_wm', 'read_all', 'read_with',
                     'all_wm_absent')
    if action in RESTART and (query or (base.startswith('counts.') and base != 'counts.disk_used') or base in ('error', 'panic')):
        ps.add('C03')
    lifecycle = action not in DATA and action not in RESTART
    if lifecycle and (query or base.startswith('ret.')):
        ps.add('C04')
    if base in ('panic', 'error') and not ps:
        ps |= {'C01', 'C02', 'C04'} if action not in RESTART else {'C03'}
    return ps


# ---------------------------------------------------------------------------------------
class StoreEngine:
    def __init__(self, run):
        self.run = run
        self.mc_states = 0
        self.mc_transitions = 0
        self.replayed = 0
        self.replayed_steps = 0
        self.distinct = 0
        self.action_counts = collections.Counter()

    # -- TLC model checking of the specification ------------------------------------------
    def push_lemma(self, maxlen=7, maxts=3):
        c = dict(BASE_CONSTS)
        c.update(Keys='{1}', MaxTs=str(maxts), LMaxLen=str(maxlen))
        r = self.run.tlc('PushLemma', cfg_text('LSpec', c, ['PushDeterministicAndSorted']), 'push-lemma', workers=4, timeout=600)
        self.mc_states += r['distinct']
        self.mc_transitions += r['generated']
        self.run.log('TLC push-lemma: %d vectors, ok=%s' % (r['distinct'], r['ok']))
        if not r['ok']:
            excerpt = self.run.tlc_error_excerpt(r)
            self.run.violation(self.run.prop, dict(kind='tlc-counterexample', config='push-lemma', text=excerpt),
                               'TLC: ordered-insertion lemma fails:\n' + excerpt[:2000])

    def model_check(self, name, consts, max_ops, max_blob, acts, damages=('keep', 'lose', 'stale'), invs=ALL_INVS,
                    workers=8, timeout=900, spec='MCSpec'):
        c = dict(BASE_CONSTS)
        c.update(consts)
        c.update(Quiesce='FALSE', Deterministic='FALSE', MaxOps=str(max_ops), MaxBlobId=str(max_blob),
                 MCActs=tla_str_set(acts), MCDamages=tla_str_set(damages))
        text = cfg_text(spec, c, invs, 'VIEW View\nCONSTRAINT Bound\n')
        r = self.run.tlc('MCStore', text, name, workers=workers, timeout=timeout, extra=['-coverage', '1'])
        self.mc_states += r['distinct']
        self.mc_transitions += r['generated']
        self.run.log('TLC %s: %d generated / %d distinct, depth %d, %.0fs, ok=%s' % (
            name, r['generated'], r['distinct'], r['depth'], r['wall'], r['ok']))
        if not r['ok']:
            if r['rc'] == 124:
                raise ToolError('TLC time-out in %s' % name)
            excerpt = self.run.tlc_error_excerpt(r)
            if any('Assert' in e or 'violated' in e or 'Invariant' in e for e in r['errors']):
                # the design itself (specification) breaks an invariant: report against the
                # property under check, with the TLC counterexample as replay
                self.run.violation(self.run.prop, dict(kind='tlc-counterexample', config=name, text=excerpt),
                                   'TLC found a counterexample in the specification (%s):\n%s' % (name, excerpt[:3000]))
            else:
                print(excerpt[:4000])
                raise ToolError('TLC failed in %s' % name)
        return r

    # -- generation ---------------------------------------------------------------------------
    def generate(self, name, consts, genlen, acts, restarts_set='{}', preds=('always',), sample=(1, 1),
                 simulate=None, every=True, suffix=0, workers=8, timeout=1800):
        c = dict(BASE_CONSTS)
        c.update(consts)
        c.update(GenLen=str(genlen), GenActs=tla_str_set(acts), GenRestarts=restarts_set,
                 GenPreds=tla_str_set(preds), SuffixId=str(suffix), ObsEvery='TRUE' if (simulate or every) else 'FALSE', SampleMod=str(sample[1]), SampleKeep=str(sample[0]),
                 Seed=str(self.run.seed))
        text = cfg_text('GSpec', c, ['Emit'])
        r = self.run.tlc('GenStore', text, name, workers=workers, timeout=timeout, simulate=simulate,
                         depth=genlen + 8 if simulate else None)
        self.run.log('TLC gen %s: %d states, %.0fs' % (name, r['distinct'], r['wall']))
        if r['errors'] or (not r['ok'] and not simulate):
            print(self.run.tlc_error_excerpt(r)[:4000])
            raise ToolError('TLC generation failed in %s' % name)
        return r

    # -- replay ----------------------------------------------------------------------------------
    ONLY = {
        'C01': 'read,contains,ret.,panic,error',
        'C02': 'all_wm,read_all,read_with,ret.,counts.records,panic,error',
        'C03': 'read,contains,all_wm,read_with,counts.next_blob_id,counts.records,counts.blobs,counts.detailed,counts.active,counts.corrupted,ret.,panic,error',
        'C04': 'read,contains,all_wm,read_with,filter_false_negative,ret.,panic,error',
        'C07': 'blob_bytes,ret.,panic,error',
        'C10': 'check_filter,filter,ret.,panic,error',
        'C12': 'ret.,panic,error',
        'C13': 'worker_alive,close,counts.blobs,counts.detailed,counts.active,counts.records,ret.,panic,error',
        'C15': 'counts.,ret.,panic,error',
    }

    def only_arg(self):
        o = self.ONLY.get(self.run.prop)
        return ['--only', o] if o else []

    def replay(self, tlc_out, hcfgs, nkeys, shards=None, limit=None, tag=''):
        """Distribute behaviour lines over shard files, run one replay process per shard."""
        shards = shards or min(NCPU, 14)
        files = [open(os.path.join(self.run.work, 'shard%s-%d.txt' % (tag, i)), 'w') for i in range(shards)]
        n = 0
        with open(tlc_out, errors='replace') as f:
            for line in f:
                if not line.startswith('<<"BEHAVIOUR"'):
                    continue
                if limit and n >= limit:
                    break
                files[n % shards].write(line)
                n += 1
        for f in files:
            f.close()
        procs = []
        for i in range(shards):
            h = dict(hcfgs[i % len(hcfgs)])
            h['seed'] = self.run.seed * 1000 + i
            out = os.path.join(self.run.work, 'replay%s-%d.out' % (tag, i))
            err = os.path.join(self.run.work, 'replay%s-%d.err' % (tag, i))
            p = subprocess.Popen([os.path.join(BIN, 'replay'), '--cfg', json.dumps(h), '--nkeys', str(nkeys)] + self.only_arg() + getattr(self, 'extra_args', []),
                                 stdin=open(files[i].name), stdout=open(out, 'w'), stderr=open(err, 'w'))
            procs.append((p, out, h))
        mismatches = []
        for p, out, h in procs:
            rc = p.wait()
            got_result = False
            with open(out, errors='replace') as f:
                for line in f:
                    if line.startswith('MISMATCH '):
                        mismatches.append(json.loads(line[9:]))
                    elif line.startswith('RESULT '):
                        r = json.loads(line[7:])
                        got_result = True
                        self.replayed += r['executed']
                        self.replayed_steps += r['steps']
                        self.distinct += r['distinct']
                        for k, v in r.get('actions', {}).items():
                            self.action_counts[k] += v
                        if r.get('sample') and len(self.run.samples) < 4:
                            self.run.samples.append(dict(harness_cfg=h, behaviour=r['sample']))
            if rc != 0 or not got_result:
                raise ToolError('replay process failed (rc=%s), see %s' % (rc, out))
        self.run.log('replayed %d behaviours (%d lines), %d with mismatches' % (self.replayed, n, len(mismatches)))
        return mismatches

    # -- judging --------------------------------------------------------------------------------------
    def judge(self, mismatches):
        """Turn mismatches into violations of the property under check (or known findings)."""
        prop = self.run.prop
        others = collections.Counter()
        for rec in mismatches:
            sig = rec.get('sig', [])
            seen_life = False
            for m in rec['mismatches']:
                step = m.get('step', -1)
                acts = sig[:step] if step >= 0 else sig
                m['after_lifecycle'] = any(a not in DATA for a in acts)
                ps = props_of(m)
                if prop in ps:
                    facts = dict(kind=m['kind'].split('[')[0], action=m['action'], sig=sig[:step + 1] if step >= 0 else sig)
                    kf = match_known(prop, facts)
                    text = '%s: after %s expected %s got %s   (behaviour: %s)' % (
                        m['kind'], m['action'], json.dumps(m['expected'])[:200], json.dumps(m['got'])[:300], ' '.join(sig))
                    if kf:
                        line = 'KNOWN-FINDING: property=%s %s: %s' % (prop, kf.get('id', ''), kf.get('what', ''))
                        if line not in self.run.known:
                            self.run.known.append(line)
                    else:
                        self.run.violation(prop, rec, text)
                    break
                else:
                    for p in ps:
                        others[p] += 1
        if others:
            self.run.notes.append('mismatches attributed to other properties (not judged by this check): %s' % dict(others))

    def coverage(self):
        return dict(states=self.mc_states, transitions=self.mc_transitions,
                    traces_validated_against_impl=self.replayed,
                    replayed_steps=self.replayed_steps, replayed_actions=dict(self.action_counts),
                    evaluations=self.replayed, distinct_nontrivial=self.distinct,
                    rule='every behaviour is a distinct action sequence generated by TLC from GenStore; '
                         'after every step all observables of the real storage are compared with the reference layer')
