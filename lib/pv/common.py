"""Shared plumbing of the checks: build, TLC runs, evidence, known findings, verdicts."""
import json, os, re, shutil, subprocess, sys, time, hashlib

VERIF = os.path.abspath(os.path.join(os.path.dirname(os.path.abspath(__file__)), '..', '..'))
SPEC = os.path.join(VERIF, 'spec')
HARNESS = os.path.join(VERIF, 'harness')
REPLAYS = os.path.join(VERIF, 'replays')
EVIDENCE = os.path.join(VERIF, 'evidence')
BIN = os.path.join(HARNESS, 'target', 'debug')
NCPU = os.cpu_count() or 8


class ToolError(Exception):
    pass


def scratch_root():
    base = os.environ.get('VERIF_SCRATCH')
    if not base:
        base = '/dev/shm/pearl-verif' if os.path.isdir('/dev/shm') else '/var/tmp/pearl-verif'
    os.makedirs(base, exist_ok=True)
    return base


class Run:
    """One invocation of one check."""

    def __init__(self, prop, tier, seed):
        self.prop, self.tier, self.seed = prop, tier, seed
        self.t0 = time.time()
        self.work = os.path.join(scratch_root(), 'check-%s-%d' % (prop, os.getpid()))
        shutil.rmtree(self.work, ignore_errors=True)
        os.makedirs(self.work)
        self.violations = []      # (property, replay path, text)
        self.known = []           # KNOWN-FINDING lines
        self.notes = []
        self.cov = {}
        self.samples = []
        self.assumptions = []
        self.spec_copied = False

    def log(self, *a):
        print('[%s %6.1fs]' % (self.prop, time.time() - self.t0), *a, flush=True)

    def cleanup(self):
        shutil.rmtree(self.work, ignore_errors=True)

    # ---- build -------------------------------------------------------------
    def build(self):
        env = dict(os.environ, CARGO_NET_OFFLINE='true')
        t = time.time()
        p = subprocess.run(['cargo', 'build', '--offline', '--bins'], cwd=HARNESS, env=env,
                           stdout=subprocess.PIPE, stderr=subprocess.STDOUT, text=True)
        if p.returncode != 0:
            print(p.stdout[-6000:])
            raise ToolError('harness build failed (pearl at /repo does not compile with --cfg pearl_verif?)')
        self.log('harness built in %.1fs' % (time.time() - t))

    # ---- TLC ---------------------------------------------------------------
    def spec_dir(self):
        d = os.path.join(self.work, 'spec')
        if not self.spec_copied:
            os.makedirs(d, exist_ok=True)
            for f in os.listdir(SPEC):
                if f.endswith('.tla'):
                    shutil.copy(os.path.join(SPEC, f), d)
            self.spec_copied = True
        return d

    def tlc(self, module, cfg_text, name, workers=8, timeout=1800, simulate=None, depth=None,
            extra=None, java_opts=None, env_extra=None, heap='8g'):
        """Run TLC; returns dict(out=path, generated, distinct, ok, errors, wall)."""
        d = self.spec_dir()
        cfg = os.path.join(d, name + '.cfg')
        open(cfg, 'w').write(cfg_text)
        out = os.path.join(self.work, name + '.out')
        meta = os.path.join(self.work, 'meta-' + name)
        cmd = ['timeout', str(timeout), 'tlc', '-workers', str(workers), '-metadir', meta, '-cleanup',
               '-noGenerateSpecTE', '-config', cfg]
        if simulate:
            cmd += ['-simulate', 'num=%d' % simulate, '-depth', str(depth or 50), '-seed', str(self.seed or 1)]
        if extra:
            cmd += extra
        cmd += [os.path.join(d, module + '.tla')]
        env = dict(os.environ)
        jtmp = os.path.join(self.work, 'jtmp')
        os.makedirs(jtmp, exist_ok=True)
        jo = '-Xmx%s -Xss512m -Djava.io.tmpdir=%s' % (heap, jtmp)   # TLC leaves a tlc-* directory per run in the temp dir
        if java_opts:
            jo += ' ' + java_opts
        env['JAVA_TOOL_OPTIONS'] = jo
        if env_extra:
            env.update(env_extra)
        t = time.time()
        with open(out, 'w') as f:
            p = subprocess.run(cmd, cwd=d, env=env, stdout=f, stderr=subprocess.STDOUT)
        wall = time.time() - t
        shutil.rmtree(meta, ignore_errors=True)
        res = dict(out=out, generated=0, distinct=0, ok=False, errors=[], wall=wall, rc=p.returncode, depth=0)
        with open(out, errors='replace') as f:
            for line in f:
                if line.startswith('<<'):
                    continue
                m = re.match(r'(\d[\d,]*) states generated, (\d[\d,]*) distinct states found', line)
                if m:
                    res['generated'] = int(m.group(1).replace(',', ''))
                    res['distinct'] = int(m.group(2).replace(',', ''))
                m = re.match(r'The depth of the complete state graph search is (\d+)', line)
                if m:
                    res['depth'] = int(m.group(1))
                if line.startswith('Model checking completed. No error has been found'):
                    res['ok'] = True
                if line.startswith('Error:') or 'is violated' in line:
                    res['errors'].append(line.strip())
        if simulate and p.returncode in (0,) and not res['errors']:
            res['ok'] = True
        if p.returncode == 124:
            res['errors'].append('TLC timed out after %ds' % timeout)
        return res

    def tlc_error_excerpt(self, res, n=60):
        lines = []
        with open(res['out'], errors='replace') as f:
            keep = False
            for line in f:
                if line.startswith('<<"'):
                    continue
                if line.startswith('Error:') or 'is violated' in line:
                    keep = True
                if keep:
                    lines.append(line.rstrip())
                if len(lines) >= n:
                    break
        return '\n'.join(lines)

    # ---- verdicts ------------------------------------------------------------
    def violation(self, prop, payload, text):
        if len(self.violations) >= 12:      # enough replay files for one run
            self.violations.append((prop, self.violations[-1][1], text))
            return
        os.makedirs(REPLAYS, exist_ok=True)
        h = hashlib.sha1(json.dumps(payload, sort_keys=True).encode()).hexdigest()[:10]
        path = os.path.join(REPLAYS, '%s-%s.json' % (prop, h))
        with open(path, 'w') as f:
            json.dump(payload, f, indent=1)
        self.violations.append((prop, path, text))

    def finish(self, level, extra_cov=None):
        cov = dict(self.cov)
        if extra_cov:
            cov.update(extra_cov)
        cov['samples'] = self.samples[:6] if self.samples else [{'note': 'no case executed'}]
        mine = [v for v in self.violations if v[0] == self.prop]
        ev = dict(property_id=self.prop, tier=self.tier, seed=int(self.seed), level=level, coverage=cov,
                  assumptions=self.assumptions, wall_s=round(time.time() - self.t0, 1),
                  violations=len(mine), notes=self.notes, known_findings=self.known)
        os.makedirs(EVIDENCE, exist_ok=True)
        with open(os.path.join(EVIDENCE, self.prop + '.json'), 'w') as f:
            json.dump(ev, f, indent=1)
        for k in self.known:
            print(k)
        for n in self.notes:
            print('NOTE:', n)
        seen = set()
        for prop, path, text in mine:
            if path in seen:
                continue
            seen.add(path)
            print(text)
            print('VIOLATION property=%s replay=%s' % (prop, path))
        self.log('done: %d violation(s), %d known finding(s), wall %.1fs' % (len(seen), len(self.known), time.time() - self.t0))
        return 1 if mine else 0


# ---- known findings ---------------------------------------------------------------
def load_known():
    p = os.path.join(VERIF, 'known_findings.json')
    if not os.path.exists(p):
        return []
    return json.load(open(p)).get('findings', [])


def match_known(prop, facts):
    """facts: dict describing a violation (kind, action, sig, ...).  A finding matches when
    every key of its signature equals (or, for lists, is a contiguous sub-list of) the fact."""
    for f in load_known():
        if f.get('property') != prop:
            continue
        sig = f.get('signature', {})
        ok = True
        for k, v in sig.items():
            got = facts.get(k)
            if k.endswith('_contains'):
                seq = facts.get(k[:-9]) or []
                n = len(v)
                if not any(seq[i:i + n] == v for i in range(len(seq) - n + 1)):
                    ok = False
            elif k.endswith('_any'):
                seq = facts.get(k[:-4]) or []
                if not any(x in seq for x in v):
                    ok = False
            elif k.endswith('_prefix'):
                if not str(facts.get(k[:-7], '')).startswith(v):
                    ok = False
            elif got != v:
                ok = False
            if not ok:
                break
        if ok:
            return f
    return None
