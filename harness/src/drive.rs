//! Driver: executes abstract actions of the specification on a real `Storage` and projects
//! the real answers to the abstract alphabet.

use crate::{wait_quiescent, HCfg};
use bytes::Bytes;
use pearl::{ArrayKey, BlobRecordTimestamp, BloomConfig, BloomProvider, Builder, FilterResult, Meta, ReadResult, Storage};
use rand::{rngs::StdRng, Rng, SeedableRng};
use serde::{Deserialize, Serialize};
use serde_json::{json, Value};
use std::collections::{BTreeMap, HashMap};
use std::path::{Path, PathBuf};
use std::time::Duration;

pub const PREFIX: &str = "vb";
pub const CORRUPTED_DIR: &str = "corrupted";
pub const QUIESCE_DEADLINE: Duration = Duration::from_secs(60);

#[derive(Debug, Clone, Deserialize, Serialize, PartialEq, Eq)]
pub struct ResJ {
    pub t: String,
    pub n: i64,
}

#[derive(Debug, Clone, Deserialize, Serialize)]
pub struct ActJ {
    pub a: String,
    #[serde(default)]
    pub k: u64,
    #[serde(default)]
    pub ts: u64,
    #[serde(default)]
    pub m: u64,
    #[serde(default)]
    pub f: u64,
    #[serde(default)]
    pub s: String,
}

#[derive(Debug, Clone, Deserialize, Serialize)]
pub struct KeyObsJ {
    pub r: ResJ,
    pub c: ResJ,
    pub all: Vec<(u64, u64, u64)>,
    pub w: BTreeMap<String, ResJ>,
    pub has: bool,
}

#[derive(Debug, Clone, Deserialize, Serialize)]
#[allow(non_snake_case)]
pub struct CountsJ {
    pub nextId: i64,
    pub records: i64,
    pub blobs: i64,
    pub activeCnt: i64,
    pub closed: Vec<(u64, u64)>,
    pub corrupted: i64,
}

#[derive(Debug, Clone, Deserialize, Serialize)]
pub struct ObsJ {
    pub keys: Vec<KeyObsJ>,
    pub counts: CountsJ,
    #[serde(default)]
    pub ondisk: Vec<u64>,
    #[serde(default = "yes")]
    pub alive: bool,
}
fn yes() -> bool { true }

#[derive(Debug, Clone, Deserialize, Serialize)]
pub struct StepJ {
    pub act: ActJ,
    pub ret: ResJ,
    #[serde(default)]
    pub obs: Option<ObsJ>,
}

/// One generated behaviour: steps with return values, observables after every step
/// (`obs` of the step) and/or after the last one (`final`).
#[derive(Debug, Clone, Deserialize, Serialize)]
pub struct BehaviourJ {
    pub steps: Vec<StepJ>,
    #[serde(default, rename = "final")]
    pub final_obs: Option<ObsJ>,
}

#[derive(Debug, Clone, Serialize)]
pub struct Mismatch {
    pub step: usize,
    pub action: String,
    pub kind: String,
    pub expected: Value,
    pub got: Value,
}

pub fn res(t: &str, n: i64) -> ResJ {
    ResJ { t: t.into(), n }
}

/// model key i (>= 1) -> 2*i, absent probes are the odd numbers and 0
/// C17 corpus directories written with the "scr" key map (see corpusgen): keys that differ in several bytes
pub static SCRAMBLED_KEYS: std::sync::atomic::AtomicBool = std::sync::atomic::AtomicBool::new(false);

pub fn key_bytes<const N: usize>(num: u64) -> ArrayKey<N> {
    if SCRAMBLED_KEYS.load(std::sync::atomic::Ordering::SeqCst) {
        let mut b = [0u8; N];
        for j in 0..N { b[j] = ((num * 37 + (j as u64) * 11) % 251) as u8; }
        b[0] = (num % 251) as u8;
        b[N - 1] = (250 - (num * 7) % 251) as u8;
        return ArrayKey::from(b);
    }
    let mut b = [0u8; N];
    let be = num.to_be_bytes();
    let n = N.min(8);
    b[N - n..].copy_from_slice(&be[8 - n..]);
    ArrayKey::from(b)
}
pub fn model_key<const N: usize>(i: u64) -> ArrayKey<N> {
    key_bytes::<N>(2 * i)
}

pub fn meta_of(m: u64) -> Meta {
    let mut meta = Meta::new();
    match m {
        0 => {}
        1 => {
            meta.insert("m".to_string(), vec![1u8]);
        }
        _ => {
            meta.insert("m".to_string(), vec![m as u8]);
            meta.insert("x".to_string(), vec![7u8, 7, 7]);
        }
    }
    meta
}
pub fn meta_serialized_size(m: u64) -> usize {
    match m {
        0 => 8,
        1 => 8 + (8 + 1) + (8 + 1),
        _ => 8 + (8 + 1) + (8 + 1) + (8 + 1) + (8 + 3),
    }
}

pub fn payload(v: u64, len: usize) -> Vec<u8> {
    let mut d = Vec::with_capacity(len);
    for i in 0..len {
        d.push(((v.wrapping_mul(131) + (i as u64) * 31 + ((i as u64) >> 8) * 7 + 13) & 0xff) as u8);
    }
    // make the first bytes carry the value id so that equal-length payloads differ
    let idb = v.to_le_bytes();
    for i in 0..len.min(8) {
        d[i] = idb[i] ^ 0x5a;
    }
    d
}

/// concrete payload length of a size class
pub fn size_of_class(class: &str, ks: usize, m: u64, v: u64) -> usize {
    let head = 57 + ks + meta_serialized_size(m);
    let t4 = 4096usize.saturating_sub(head);
    let t80 = 81920usize.saturating_sub(head);
    match class {
        "z0" => 0,
        "z1" => 1,
        "s" | "" => 12 + (v % 7) as usize,
        "e4k-" => t4.saturating_sub(1),
        "e4k" => t4,
        "e4k+" => t4 + 1,
        "e80k-" => t80 - 1,
        "e80k" => t80,
        "e80k+" => t80 + 1,
        "big" => 200 * 1024,
        other => other.parse::<usize>().unwrap_or(16),
    }
}

pub struct Driver<const N: usize> {
    pub cfg: HCfg,
    pub dir: PathBuf,
    pub storage: Option<Storage<ArrayKey<N>>>,
    pub payloads: HashMap<u64, Vec<u8>>,
    pub nkeys: u64,
    pub rng: StdRng,
    /// older complete index files per blob id: (described blob size, content)
    pub index_history: HashMap<u64, Vec<(u64, Vec<u8>)>>,
    pub log: Vec<String>,
    /// trace recorder (installed as the process-global tap by the caller)
    pub rec: Option<std::sync::Arc<crate::tap::Recorder>>,
    /// id of the blob that was active before the last close-like call (for the trace)
    pub last_active: i64,
    /// byte snapshots of every blob file ever seen (C07), by blob id
    pub snaps: HashMap<u64, Vec<u8>>,
    pub snapshots_on: bool,
    /// mismatches found while executing an action (reported with the step's comparison)
    pub pending: Vec<Mismatch>,
    /// ids of unreadable blob files left in the work directory (ignore_corrupted)
    pub ignored: std::collections::HashSet<u64>,
}

pub fn blob_path(dir: &Path, id: u64) -> PathBuf {
    dir.join(format!("{}.{}.blob", PREFIX, id))
}
pub fn index_path(dir: &Path, id: u64) -> PathBuf {
    dir.join(format!("{}.{}.index", PREFIX, id))
}

/// (id, is_index, path) of storage files directly in `dir`
pub fn list_files(dir: &Path) -> Vec<(u64, bool, PathBuf)> {
    let mut v = Vec::new();
    if let Ok(rd) = std::fs::read_dir(dir) {
        for e in rd.flatten() {
            let p = e.path();
            if !p.is_file() {
                continue;
            }
            let name = p.file_name().unwrap().to_string_lossy().to_string();
            let parts: Vec<&str> = name.split('.').collect();
            if parts.len() == 3 && parts[0] == PREFIX {
                if let Ok(id) = parts[1].parse::<u64>() {
                    match parts[2] {
                        "blob" => v.push((id, false, p)),
                        "index" => v.push((id, true, p)),
                        _ => {}
                    }
                }
            }
        }
    }
    v.sort();
    v
}

pub const INDEX_HEADER_SIZE: usize = 83;
/// blob size described by an index file, and its written bit (None if too short)
pub fn index_header_info(buf: &[u8]) -> Option<(u64, bool)> {
    if buf.len() < INDEX_HEADER_SIZE {
        return None;
    }
    let written = buf[72] & 1 == 1;
    let bs = u64::from_le_bytes(buf[75..83].try_into().unwrap());
    Some((bs, written))
}

impl<const N: usize> Driver<N> {
    pub fn new(cfg: HCfg, dir: PathBuf, nkeys: u64) -> Self {
        let seed = cfg.seed;
        Self {
            cfg,
            dir,
            storage: None,
            payloads: HashMap::new(),
            nkeys,
            rng: StdRng::seed_from_u64(seed),
            index_history: HashMap::new(),
            log: Vec::new(),
            rec: None,
            last_active: -1,
            snaps: HashMap::new(),
            snapshots_on: false,
            pending: Vec::new(),
            ignored: Default::default(),
        }
    }

    pub fn builder(&self) -> Builder {
        let mut b = Builder::new()
            .work_dir(&self.dir)
            .blob_file_name_prefix(PREFIX)
            .corrupted_dir_name(CORRUPTED_DIR)
            .max_blob_size(1 << 40)
            .max_data_in_blob(if self.cfg.max_recs == 0 { 1 << 31 } else { self.cfg.max_recs })
            .set_bloom_filter_group_size(self.cfg.group)
            .set_validate_data_during_index_regen(self.cfg.validate_regen);
        b = if self.cfg.deferred_fires {
            b.set_deferred_index_dump_times(Duration::from_millis(1), Duration::from_millis(2))
        } else {
            b.set_deferred_index_dump_times(Duration::from_secs(3600), Duration::from_secs(3600))
        };
        if self.cfg.allow_dup {
            b = b.allow_duplicates();
        }
        if self.cfg.ignore_corrupted {
            b = b.ignore_corrupted();
        }
        if let Some(l) = self.cfg.dirty_limit {
            b = b.set_max_dirty_bytes_before_sync(l);
        }
        match self.cfg.bloom.as_str() {
            "off" => {}
            "small" => {
                b = b.set_filter_config(BloomConfig {
                    elements: 100,
                    hashers_count: 2,
                    max_buf_bits_count: 1000,
                    buf_increase_step: 100,
                    preferred_false_positive_rate: 0.001,
                })
            }
            "odd" => {
                b = b.set_filter_config(BloomConfig {
                    elements: 20,
                    hashers_count: 3,
                    max_buf_bits_count: 317,
                    buf_increase_step: 7,
                    preferred_false_positive_rate: 0.01,
                })
            }
            "tiny" => {
                b = b.set_filter_config(BloomConfig {
                    elements: 2,
                    hashers_count: 1,
                    max_buf_bits_count: 9,
                    buf_increase_step: 1,
                    preferred_false_positive_rate: 0.5,
                })
            }
            _ => b = b.set_filter_config(BloomConfig::default()),
        }
        b
    }

    pub async fn open(&mut self, lazy: bool) -> Result<(), String> {
        let mut st: Storage<ArrayKey<N>> = self.builder().build().map_err(|e| format!("build: {e:#}"))?;
        self.ev("call", "init", -1, true);
        let r = if lazy { st.init_lazy().await } else { st.init().await };
        self.ev("ret", "init", -1, r.is_ok());
        r.map_err(|e| format!("init: {e:#}"))?;
        self.storage = Some(st);
        self.settle().await
    }

    /// answers of check_filters / check_filter for every model key and absent probe
    pub async fn filter_answers(&self) -> Vec<(u64, i8, bool)> {
        let st = self.storage.as_ref().expect("open");
        let mut v = Vec::new();
        for probe in 0..=(2 * self.nkeys + 1) {
            let key = key_bytes::<N>(probe);
            let a = match st.check_filters(&key).await { Some(true) => 1, Some(false) => 0, None => -1 };
            let b = BloomProvider::check_filter(st, &key).await == FilterResult::NeedAdditionalCheck;
            v.push((probe, a, b));
        }
        v
    }

    /// driver-side trace event
    pub fn ev(&self, ev: &str, op: &str, id: i64, ok: bool) {
        if let Some(r) = &self.rec {
            r.driver_event(ev, op, id, ok, 0);
        }
    }

    /// id of the active blob as the storage reports it through its files: the highest blob
    /// id in the work directory when an active blob exists (spec: OrderLemma)
    async fn active_id(&self) -> i64 {
        match &self.storage {
            Some(st) if st.records_count_in_active_blob().await.is_some() => {
                list_files(&self.dir).iter().filter(|f| !f.1).map(|f| f.0 as i64).max().unwrap_or(-1)
            }
            _ => -1,
        }
    }

    /// wait for background quiescence according to the configuration
    pub async fn settle(&mut self) -> Result<(), String> {
        if self.cfg.wait {
            let r = wait_quiescent(self.cfg.deferred_fires, QUIESCE_DEADLINE).await;
            if r.is_ok() && pearl::verif::PROBE.deferred.load(std::sync::atomic::Ordering::SeqCst) == 0 {
                self.ev("quiescent", "", -1, true);
            }
            r
        } else {
            // messages processed, dumps may still be running
            wait_msgs(QUIESCE_DEADLINE).await
        }
    }

    fn st(&self) -> &Storage<ArrayKey<N>> {
        self.storage.as_ref().expect("storage is open")
    }

    /// Execute one abstract action; returns the abstract return value.
    pub async fn exec(&mut self, act: &ActJ, vid: u64) -> Result<ResJ, String> {
        if self.rec.is_some() && matches!(act.a.as_str(), "close_active" | "restart") {
            self.last_active = self.active_id().await;
        }
        if act.a != "restart" {
            self.ev("call", &act.a, -1, true);
        }
        let r = self.exec_inner(act, vid).await?;
        if act.a != "restart" {
            let id = if act.a == "close_active" { self.last_active } else { -1 };
            self.ev("ret", &act.a, id, r.t != "err");
            self.settle().await?;
        }
        self.remember_indexes();
        Ok(r)
    }

    async fn exec_inner(&mut self, act: &ActJ, vid: u64) -> Result<ResJ, String> {
        let r = match act.a.as_str() {
            "write" => {
                let len = size_of_class(&act.s, N, act.m, vid);
                let data = payload(vid, len);
                self.payloads.insert(vid, data.clone());
                let key = model_key::<N>(act.k);
                let ts = BlobRecordTimestamp::new(act.ts);
                let r = if act.m == 0 {
                    self.st().write(&key, Bytes::from(data), ts).await
                } else {
                    self.st().write_with(&key, Bytes::from(data), ts, meta_of(act.m)).await
                };
                match r {
                    Ok(()) => res("ok", 0),
                    Err(e) => {
                        self.log.push(format!("write error: {e:#}"));
                        res("err", 0)
                    }
                }
            }
            "delete" => {
                let key = model_key::<N>(act.k);
                let ts = BlobRecordTimestamp::new(act.ts);
                let only = act.f == 1;
                let r = if act.m == 0 {
                    self.st().delete(&key, ts, only).await
                } else {
                    self.st().delete_with(&key, ts, meta_of(act.m), only).await
                };
                match r {
                    Ok(n) => res("cnt", n as i64),
                    Err(e) => {
                        self.log.push(format!("delete error: {e:#}"));
                        res("err", 0)
                    }
                }
            }
            "close_active" => okerr(self.st().try_close_active_blob().await, &mut self.log),
            "create_active" => okerr(self.st().try_create_active_blob().await, &mut self.log),
            "restore_active" => okerr(self.st().try_restore_active_blob().await, &mut self.log),
            "force_update" => {
                match act.s.as_str() {
                    "always" => self.st().force_update_active_blob(|_| true).await,
                    "never" => self.st().force_update_active_blob(|_| false).await,
                    _ => self.st().force_update_active_blob(|s| s.is_some()).await,
                }
                res("ok", 0)
            }
            "close_bg" => {
                self.st().close_active_blob_in_background().await;
                res("ok", 0)
            }
            "create_bg" => {
                self.st().create_active_blob_in_background().await;
                res("ok", 0)
            }
            "restore_bg" => {
                self.st().restore_active_blob_in_background().await;
                res("ok", 0)
            }
            "free_excess" => {
                let _ = self.st().free_excess_resources().await;
                res("ok", 0)
            }
            "fsync" => match self.st().fsyncdata().await {
                Ok(()) => res("ok", 0),
                Err(e) => {
                    self.log.push(format!("fsync error: {e:#}"));
                    res("err", 0)
                }
            },
            "offload" => {
                // C10: the answers of the filters for every probe key must not change when the
                // buffers are off-loaded (file answers = memory answers)
                let level = act.f as usize;
                let before = self.filter_answers().await;
                let st = self.storage.as_mut().expect("open");
                let _ = st.offload_buffer(usize::MAX, level).await;
                let after = self.filter_answers().await;
                if before != after {
                    self.pending.push(Mismatch { step: 0, action: "offload".into(), kind: "filter_offload_diff".into(),
                        expected: json!(before), got: json!(after) });
                }
                res("ok", 0)
            }
            "age" => {
                tokio::time::sleep(Duration::from_millis(260)).await;
                res("ok", 0)
            }
            "dump_idx" => {
                // an index dump completing now: the closest deterministic equivalent
                let _ = self.st().free_excess_resources().await;
                wait_quiescent(false, QUIESCE_DEADLINE).await?;
                res("ok", 0)
            }
            "restart" => {
                let graceful = act.f & 1 == 1;
                let lazy = act.f & 2 == 2;
                self.shutdown(graceful).await?;
                if act.f & 4 == 4 {
                    // the blob file of the victim becomes unreadable: cut inside its first record header
                    // (or inside the blob header when it holds no record)
                    let p = blob_path(&self.dir, act.k);
                    let len = std::fs::metadata(&p).map(|m| m.len()).unwrap_or(0);
                    // inside the header of the first record, so that the start-up scan cannot get past it
                    let cut = if len > 25 { 25 } else { len.min(10) };
                    truncate(&p, cut);
                    self.snaps.remove(&act.k);   // the driver itself changed these bytes
                    if self.cfg.ignore_corrupted {
                        self.ignored.insert(act.k);
                    }
                    if let Some(r) = &self.rec {
                        r.file_event("damage", &format!("b{}", act.k), "blob", act.k as i64);
                    }
                    self.log.push(format!("damage: blob {} file truncated {len} -> {cut}", act.k));
                }
                self.damage_indexes(if act.f & 4 == 4 { "keep" } else { &act.s });
                self.open(lazy).await?;
                res("ok", 0)
            }
            other => return Err(format!("unknown action {other}")),
        };
        Ok(r)
    }

    pub async fn shutdown(&mut self, graceful: bool) -> Result<(), String> {
        if let Some(st) = self.storage.take() {
            if graceful {
                self.ev("call", "close", -1, true);
                let res = st.close().await;
                self.ev("ret", "close", self.last_active, res.is_ok());
                if let Err(e) = res {
                    self.log.push(format!("close error: {e:#}"));
                    return Err(format!("close failed: {e:#}"));
                }
            } else {
                drop(st);
            }
        }
        // the worker must be gone and nothing may be in flight before files are touched
        let start = std::time::Instant::now();
        loop {
            use std::sync::atomic::Ordering::SeqCst;
            let p = &pearl::verif::PROBE;
            if p.workers_alive.load(SeqCst) == 0
                && p.dump_tasks.load(SeqCst) == 0
                && p.fsync_tasks.load(SeqCst) == 0
                && p.blocking.load(SeqCst) == 0
            {
                break;
            }
            if start.elapsed() > QUIESCE_DEADLINE {
                return Err("shutdown deadline: worker still alive".into());
            }
            tokio::time::sleep(Duration::from_micros(300)).await;
        }
        crate::reset_probe_after_dead_worker();
        Ok(())
    }

    /// keep complete index files of earlier moments, to be put back as "stale" later
    fn remember_indexes(&mut self) {
        for (id, is_index, p) in list_files(&self.dir) {
            if !is_index {
                continue;
            }
            if let Ok(buf) = std::fs::read(&p) {
                if let Some((bs, true)) = index_header_info(&buf) {
                    let h = self.index_history.entry(id).or_default();
                    if h.last().map(|(s, _)| *s) != Some(bs) && buf.len() < 1 << 20 {
                        h.push((bs, buf));
                        if h.len() > 4 {
                            h.remove(0);
                        }
                    }
                }
            }
        }
    }

    /// Expand an abstract damage class into a concrete damage of every index file.
    /// "keep": nothing.  "lose": the file fails validation - removed, truncated (any
    /// length), header only, written flag cleared (with or without truncation), empty.
    /// "stale": an older complete index of the same blob (describing a shorter blob);
    /// falls back to "lose" when none was seen.
    pub fn damage_indexes(&mut self, class: &str) {
        if class == "keep" || class.is_empty() {
            return;
        }
        let files = list_files(&self.dir);
        for (id, is_index, p) in files {
            if !is_index {
                continue;
            }
            let blob_len = std::fs::metadata(blob_path(&self.dir, id)).map(|m| m.len()).unwrap_or(0);
            let mut done = false;
            // the index file is about to be changed behind the storage's back: tell the trace
            if let Some(r) = &self.rec {
                r.file_event("damage", &format!("i{}", id), "index", id as i64);
            }
            if class == "stale" {
                if let Some(h) = self.index_history.get(&id) {
                    if let Some((_, content)) = h.iter().rev().find(|(bs, _)| *bs < blob_len) {
                        std::fs::write(&p, content).expect("write stale index");
                        self.log.push(format!("damage: blob {id} stale index put back"));
                        done = true;
                    }
                }
            }
            if done {
                continue;
            }
            let len = std::fs::metadata(&p).map(|m| m.len()).unwrap_or(0);
            let variant = if let Some(rest) = class.strip_prefix("trunc:") {
                // explicit truncation length (fraction in 1/10000 of the file)
                let frac: u64 = rest.parse().unwrap_or(5000);
                100 + frac
            } else {
                self.rng.gen_range(0..6u64)
            };
            match variant {
                0 => {
                    let _ = std::fs::remove_file(&p);
                    self.log.push(format!("damage: blob {id} index removed"));
                }
                1 => {
                    let cut = if len > 0 { self.rng.gen_range(0..len) } else { 0 };
                    truncate(&p, cut);
                    self.log.push(format!("damage: blob {id} index truncated {len} -> {cut}"));
                }
                2 => {
                    truncate(&p, INDEX_HEADER_SIZE as u64);
                    self.log.push(format!("damage: blob {id} index header only"));
                }
                3 => {
                    clear_written(&p);
                    self.log.push(format!("damage: blob {id} written flag cleared"));
                }
                4 => {
                    clear_written(&p);
                    let cut = if len > INDEX_HEADER_SIZE as u64 { self.rng.gen_range(INDEX_HEADER_SIZE as u64..len) } else { len };
                    truncate(&p, cut);
                    self.log.push(format!("damage: blob {id} half written: flag clear, {len} -> {cut}"));
                }
                5 => {
                    truncate(&p, 0);
                    self.log.push(format!("damage: blob {id} index emptied"));
                }
                v => {
                    let cut = len * (v - 100) / 10000;
                    truncate(&p, cut.min(len.saturating_sub(1)));
                    self.log.push(format!("damage: blob {id} index truncated {len} -> {cut}"));
                }
            }
        }
    }

    /// Observe the real storage and compare with the expected observables.
    pub async fn compare(&mut self, step: usize, action: &str, exp: &ObsJ, out: &mut Vec<Mismatch>) {
        self.ev("call", "query", -1, true);
        for mut m in self.pending.drain(..) {
            m.step = step;
            out.push(m);
        }
        self.compare_inner(step, action, exp, out).await;
        self.ev("ret", "query", -1, true);
    }

    async fn compare_inner(&mut self, step: usize, action: &str, exp: &ObsJ, out: &mut Vec<Mismatch>) {
        let mut mm = |kind: String, expected: Value, got: Value| {
            out.push(Mismatch { step, action: action.to_string(), kind, expected, got });
        };
        let st = self.storage.as_ref().expect("open");
        // ---- per key observables
        for (idx, ko) in exp.keys.iter().enumerate() {
            let i = idx as u64 + 1;
            let key = model_key::<N>(i);
            // read
            let got = match st.read(&key).await {
                Ok(ReadResult::Found(b)) => {
                    if ko.r.t == "F" {
                        let want = self.payloads.get(&(ko.r.n as u64));
                        if want.map(|w| &w[..] == &b[..]).unwrap_or(false) { ko.r.clone() } else {
                            ResJ { t: "F".into(), n: self.identify(&b) }
                        }
                    } else {
                        ResJ { t: "F".into(), n: self.identify(&b) }
                    }
                }
                Ok(ReadResult::Deleted(ts)) => res("D", tsu(ts) as i64),
                Ok(ReadResult::NotFound) => res("N", 0),
                Err(e) => ResJ { t: format!("err: {e:#}"), n: 0 },
            };
            if got != ko.r {
                mm(format!("read[{i}]"), json!(ko.r), json!(got));
            }
            // contains
            let got = match st.contains(&key).await {
                Ok(ReadResult::Found(ts)) => res("F", tsu(ts) as i64),
                Ok(ReadResult::Deleted(ts)) => res("D", tsu(ts) as i64),
                Ok(ReadResult::NotFound) => res("N", 0),
                Err(e) => ResJ { t: format!("err: {e:#}"), n: 0 },
            };
            if got != ko.c {
                mm(format!("contains[{i}]"), json!(ko.c), json!(got));
            }
            // read_all_with_deletion_marker
            match st.read_all_with_deletion_marker(&key).await {
                Ok(entries) => {
                    let mut got = Vec::new();
                    let mut bytes_ok = true;
                    for (j, e) in entries.into_iter().enumerate() {
                        let ts: u64 = e.timestamp().into();
                        let del = e.is_deleted();
                        let want_v = ko.all.get(j).map(|t| t.2).unwrap_or(u64::MAX);
                        let v = if del { want_v } else {
                            match e.load().await {
                                Ok(rec) => {
                                    let d = rec.into_data();
                                    if self.payloads.get(&want_v).map(|w| &w[..] == &d[..]).unwrap_or(false) { want_v } else {
                                        bytes_ok = false;
                                        self.identify(&d) as u64
                                    }
                                }
                                Err(_) => { bytes_ok = false; u64::MAX - 1 }
                            }
                        };
                        got.push((ts, del as u64, v));
                    }
                    let same = got.len() == ko.all.len()
                        && got.iter().zip(ko.all.iter()).all(|(g, x)| g.0 == x.0 && g.1 == x.1 && (g.1 == 1 || g.2 == x.2));
                    if !same || !bytes_ok {
                        mm(format!("all_wm[{i}]"), json!(ko.all), json!(got));
                    }
                }
                Err(e) => mm(format!("all_wm[{i}]"), json!(ko.all), json!(format!("err: {e:#}"))),
            }
            // read_all = the list without the marker
            match st.read_all(&key).await {
                Ok(entries) => {
                    let got: Vec<(u64, u64)> = entries.iter().map(|e| (tsu(e.timestamp()), e.is_deleted() as u64)).collect();
                    let want: Vec<(u64, u64)> = ko.all.iter().filter(|t| t.1 == 0).map(|t| (t.0, 0)).collect();
                    if got != want {
                        mm(format!("read_all[{i}]"), json!(want), json!(got));
                    }
                }
                Err(e) => mm(format!("read_all[{i}]"), json!("ok"), json!(format!("err: {e:#}"))),
            }
            // read_with for every metadata value
            for (ms, want) in ko.w.iter() {
                let m: u64 = ms.parse().unwrap_or(0);
                let got = match st.read_with(&key, &meta_of(m)).await {
                    Ok(ReadResult::Found(b)) => {
                        if want.t == "F" && self.payloads.get(&(want.n as u64)).map(|w| &w[..] == &b[..]).unwrap_or(false) {
                            want.clone()
                        } else {
                            ResJ { t: "F".into(), n: self.identify(&b) }
                        }
                    }
                    Ok(ReadResult::Deleted(ts)) => res("D", tsu(ts) as i64),
                    Ok(ReadResult::NotFound) => res("N", 0),
                    Err(e) => ResJ { t: format!("err: {e:#}"), n: 0 },
                };
                if &got != want {
                    mm(format!("read_with[{i},{m}]"), json!(want), json!(got));
                }
            }
            // filters: never "definitely absent" for a stored key
            if ko.has {
                if st.check_filters(&key).await == Some(false) {
                    mm(format!("check_filters[{i}]"), json!("maybe"), json!("definitely absent"));
                }
                if BloomProvider::check_filter(st, &key).await == FilterResult::NotContains {
                    mm(format!("check_filter[{i}]"), json!("maybe"), json!("NotContains"));
                }
            }
        }
        // ---- absent keys: below, between, above
        for a in 0..=self.nkeys {
            let key = key_bytes::<N>(2 * a + 1);
            match st.read(&key).await {
                Ok(ReadResult::NotFound) => {}
                other => mm(format!("read_absent[{}]", 2 * a + 1), json!("N"), json!(format!("{:?}", other.map(|r| r.map(|b| b.len()))))),
            }
            match st.contains(&key).await {
                Ok(ReadResult::NotFound) => {}
                other => mm(format!("contains_absent[{}]", 2 * a + 1), json!("N"), json!(format!("{:?}", other))),
            }
            match st.read_all_with_deletion_marker(&key).await {
                Ok(v) if v.is_empty() => {}
                other => mm(format!("all_wm_absent[{}]", 2 * a + 1), json!([]), json!(format!("{:?}", other.map(|v| v.len())))),
            }
        }
        // ---- counts
        let c = &exp.counts;
        let got_records = st.records_count().await as i64;
        if got_records != c.records {
            mm("counts.records".into(), json!(c.records), json!(got_records));
        }
        let got_blobs = st.blobs_count().await as i64;
        if got_blobs != c.blobs {
            mm("counts.blobs".into(), json!(c.blobs), json!(got_blobs));
        }
        let got_active = st.records_count_in_active_blob().await.map(|x| x as i64).unwrap_or(-1);
        if got_active != c.activeCnt {
            mm("counts.active".into(), json!(c.activeCnt), json!(got_active));
        }
        let mut det: Vec<(u64, u64)> = st.records_count_detailed().await.into_iter().map(|(a, b)| (a as u64, b as u64)).collect();
        if c.activeCnt >= 0 {
            // the last entry is the active blob; its label is not compared
            let last = det.pop();
            if last.map(|x| x.1 as i64) != Some(c.activeCnt) {
                mm("counts.detailed_active".into(), json!(c.activeCnt), json!(last));
            }
        }
        if det != c.closed {
            mm("counts.detailed_closed".into(), json!(c.closed), json!(det));
        }
        let got_next = st.next_blob_id() as i64;
        if got_next != c.nextId {
            mm("counts.next_blob_id".into(), json!(c.nextId), json!(got_next));
        }
        let got_corr = st.corrupted_blobs_count() as i64;
        if got_corr != c.corrupted {
            mm("counts.corrupted".into(), json!(c.corrupted), json!(got_corr));
        }
        // disk_used against the directory listing
        let du = st.disk_used().await;
        let mut live: Vec<u64> = c.closed.iter().map(|x| x.0).collect();
        let files: Vec<_> = list_files(&self.dir).into_iter().filter(|f| !self.ignored.contains(&f.0)).collect();
        if c.activeCnt >= 0 {
            // the active blob is the live id not listed among the closed ones: the highest
            // id among blob files that is not closed (spec: active > every closed id)
            if let Some(a) = files.iter().filter(|f| !f.1).map(|f| f.0).filter(|id| !live.contains(id)).max() {
                live.push(a);
            }
        }
        let mut lo = 0u64;
        let mut idx_sizes = Vec::new();
        for (id, is_index, p) in files.iter() {
            if !live.contains(id) {
                continue;
            }
            let sz = std::fs::metadata(p).map(|m| m.len()).unwrap_or(0);
            if *is_index { idx_sizes.push((*id, sz)); } else { lo += sz; }
        }
        let hi = lo + idx_sizes.iter().map(|x| x.1).sum::<u64>();
        let mut ok = du >= lo && du <= hi;
        if ok && self.cfg.wait {
            // at quiescence the storage counts exactly the indexes it holds on disk
            let want: u64 = lo + idx_sizes.iter().filter(|(id, _)| exp.ondisk.contains(id)).map(|x| x.1).sum::<u64>();
            // subset-sum tolerance: any subset of existing index files is a legal "files in use" set
            ok = du == want || subset_sum(&idx_sizes.iter().map(|x| x.1).collect::<Vec<_>>(), du - lo);
        }
        if !ok {
            mm("counts.disk_used".into(), json!({"lo": lo, "hi": hi}), json!(du));
        }
        // ---- background worker
        let alive = pearl::verif::PROBE.workers_alive.load(std::sync::atomic::Ordering::SeqCst) > 0;
        if alive != exp.alive {
            mm("worker_alive".into(), json!(exp.alive), json!(alive));
        }
    }

    /// Project the answers of the real storage to the abstract alphabet (for traces that TLC
    /// validates against TraceStore).  Value ids are recovered from the payload bytes.
    pub async fn observe(&self) -> Value {
        let st = self.storage.as_ref().expect("open");
        let mut keys = Vec::new();
        for i in 1..=self.nkeys {
            let key = model_key::<N>(i);
            let rd = |r: Result<ReadResult<Bytes>, anyhow::Error>| match r {
                Ok(ReadResult::Found(b)) => json!({"t": "F", "n": self.identify(&b)}),
                Ok(ReadResult::Deleted(ts)) => json!({"t": "D", "n": tsu(ts)}),
                Ok(ReadResult::NotFound) => json!({"t": "N", "n": 0}),
                Err(e) => json!({"t": format!("err: {e:#}"), "n": 0}),
            };
            let r = rd(st.read(&key).await);
            let c = match st.contains(&key).await {
                Ok(ReadResult::Found(ts)) => json!({"t": "F", "n": tsu(ts)}),
                Ok(ReadResult::Deleted(ts)) => json!({"t": "D", "n": tsu(ts)}),
                Ok(ReadResult::NotFound) => json!({"t": "N", "n": 0}),
                Err(e) => json!({"t": format!("err: {e:#}"), "n": 0}),
            };
            let mut all = Vec::new();
            match st.read_all_with_deletion_marker(&key).await {
                Ok(entries) => {
                    for e in entries {
                        let ts = tsu(e.timestamp());
                        let del = e.is_deleted() as u64;
                        let v = if del == 1 { 0 } else {
                            match e.load().await { Ok(rec) => self.identify(&rec.into_data()), Err(_) => -998 }
                        };
                        all.push(json!([ts, del, v]));
                    }
                }
                Err(_) => all.push(json!([0, 0, -997])),
            }
            let w0 = rd(st.read_with(&key, &meta_of(0)).await);
            let w1 = rd(st.read_with(&key, &meta_of(1)).await);
            let w2 = rd(st.read_with(&key, &meta_of(2)).await);
            keys.push(json!({"r": r, "c": c, "all": all, "w0": w0, "w1": w1, "w2": w2}));
        }
        json!({"keys": keys, "records": st.records_count().await as i64})
    }

    /// C07 (hook-free part): the earlier content of every blob file is a prefix of its current
    /// content, in the work directory or moved unchanged to the corrupted directory; no file
    /// with a known id appears with different leading bytes (id reuse).
    pub fn check_snapshots(&mut self, step: usize, action: &str, out: &mut Vec<Mismatch>) {
        if !self.snapshots_on {
            return;
        }
        let mut now: HashMap<u64, Vec<u8>> = HashMap::new();
        let mut dup: Vec<u64> = Vec::new();
        for dir in [self.dir.clone(), self.dir.join(CORRUPTED_DIR)] {
            for (id, is_index, p) in list_files(&dir) {
                if is_index {
                    continue;
                }
                if let Ok(b) = std::fs::read(&p) {
                    if now.insert(id, b).is_some() {
                        dup.push(id);
                    }
                }
            }
        }
        for id in dup {
            out.push(Mismatch { step, action: action.to_string(), kind: "blob_bytes.duplicate_id".into(),
                expected: json!("one file per blob id"), got: json!(format!("blob {id} exists in the work dir and in the corrupted dir")) });
        }
        for (id, old) in self.snaps.iter() {
            match now.get(id) {
                None => out.push(Mismatch { step, action: action.to_string(), kind: "blob_bytes.missing".into(),
                    expected: json!(format!("blob {id} with {} bytes", old.len())), got: json!("file is gone") }),
                Some(cur) => {
                    if cur.len() < old.len() || cur[..old.len()] != old[..] {
                        let first = old.iter().zip(cur.iter()).position(|(a, b)| a != b).unwrap_or(cur.len().min(old.len()));
                        out.push(Mismatch { step, action: action.to_string(), kind: "blob_bytes.changed".into(),
                            expected: json!(format!("blob {id}: earlier {} bytes are a prefix", old.len())),
                            got: json!(format!("length {} , first difference at byte {}", cur.len(), first)) });
                    }
                }
            }
        }
        for (id, cur) in now {
            self.snaps.insert(id, cur);
        }
    }

    /// value id of a payload (for reporting): the id whose bytes equal the payload
    fn identify(&self, b: &[u8]) -> i64 {
        for (v, p) in self.payloads.iter() {
            if &p[..] == b {
                return *v as i64;
            }
        }
        -999
    }
}

fn subset_sum(items: &[u64], target: u64) -> bool {
    if items.len() > 16 {
        return true;
    }
    for mask in 0u32..(1u32 << items.len()) {
        let s: u64 = items.iter().enumerate().filter(|(i, _)| mask >> i & 1 == 1).map(|(_, x)| *x).sum();
        if s == target {
            return true;
        }
    }
    false
}

fn okerr<E: std::fmt::Display>(r: Result<(), E>, log: &mut Vec<String>) -> ResJ {
    match r {
        Ok(()) => res("ok", 0),
        Err(e) => {
            log.push(format!("lifecycle error: {e:#}"));
            res("err", 0)
        }
    }
}

pub fn truncate(p: &Path, len: u64) {
    if let Ok(f) = std::fs::OpenOptions::new().write(true).open(p) {
        let _ = f.set_len(len);
    }
}

pub fn clear_written(p: &Path) {
    if let Ok(mut buf) = std::fs::read(p) {
        if buf.len() > 72 {
            buf[72] &= !1;
            let _ = std::fs::write(p, buf);
        }
    }
}

/// wait until every message sent to the worker was processed (dump tasks may still run)
pub async fn wait_msgs(deadline: Duration) -> Result<(), String> {
    use pearl::verif::PROBE;
    use std::sync::atomic::Ordering::SeqCst;
    let start = std::time::Instant::now();
    loop {
        if PROBE.msgs.load(SeqCst) == 0 || PROBE.workers_alive.load(SeqCst) == 0 {
            return Ok(());
        }
        if start.elapsed() > deadline {
            return Err("message processing deadline".into());
        }
        tokio::time::sleep(Duration::from_micros(200)).await;
    }
}


pub fn tsu(ts: BlobRecordTimestamp) -> u64 {
    ts.into()
}
