fn main() {
    eprintln!("binaries: replay");
}
