fn main(){}
