//! Tap implementations on top of the cfg(pearl_verif) hooks of pearl: trace recorder (H1 + H2
//! events in one global order), fault injector and gates.

use pearl::verif::{IoEvent, IoOp, Tap, Verdict};
use serde_json::{json, Value};
use std::path::Path;
use std::sync::atomic::{AtomicBool, AtomicI64, AtomicU64, Ordering};
use std::sync::{Arc, Mutex};

thread_local! {
    /// id of the client operation whose future is being polled on this thread (0 = none);
    /// set by the concurrent driver around every poll, read when a hook event is recorded
    pub static CURRENT_OP: std::cell::Cell<u64> = std::cell::Cell::new(0);
}

/// (kind, id, location) of a storage file path: kind "blob" | "index" | "other",
/// location "w" (work dir) | "c" (corrupted dir)
pub fn classify(path: &Path) -> (String, i64, String) {
    let name = path.file_name().map(|s| s.to_string_lossy().to_string()).unwrap_or_default();
    let parts: Vec<&str> = name.split('.').collect();
    let loc = if path.parent().and_then(|p| p.file_name()).map(|s| s == crate::drive::CORRUPTED_DIR).unwrap_or(false) { "c" } else { "w" };
    if parts.len() == 3 {
        if let Ok(id) = parts[1].parse::<i64>() {
            let kind = match parts[2] {
                "blob" => "blob",
                "index" => "index",
                _ => "other",
            };
            return (kind.to_string(), id, loc.to_string());
        }
    }
    ("other".to_string(), -1, loc.to_string())
}

pub fn file_name_of(kind: &str, id: i64, loc: &str) -> String {
    let k = match kind {
        "blob" => "b",
        "index" => "i",
        _ => "o",
    };
    if loc == "c" { format!("{}{}c", k, id) } else { format!("{}{}", k, id) }
}

fn op_name(op: IoOp) -> &'static str {
    match op {
        IoOp::Create => "create",
        IoOp::Open => "open",
        IoOp::Reserve => "reserve",
        IoOp::Write => "write",
        IoOp::WriteDone => "write_done",
        IoOp::WriteAt => "write_at",
        IoOp::WriteAtDone => "write_at_done",
        IoOp::SyncBegin => "sync_begin",
        IoOp::Sync => "sync",
        IoOp::SyncEnd => "sync_end",
        IoOp::Truncate => "truncate",
        IoOp::Rename => "rename",
        IoOp::Remove => "remove",
    }
}

/// What to do with the n-th operation of a kind on a file class.
#[derive(Debug, Clone)]
pub struct FaultPlan {
    /// "create" | "open" | "write" | "write_at" | "sync" | "truncate" | "rename" | "remove"
    pub op: String,
    /// "blob" | "index" | "any"
    pub kind: String,
    /// 1-based occurrence to hit
    pub nth: u64,
    /// "eio" | "enospc" | "short"
    pub how: String,
    /// bytes written by a short write
    pub short: u64,
}

/// Recorder + optional single fault.  All events (I/O, linearization points, driver events)
/// go into one vector, ordered by the hook's global sequence number.
pub struct Recorder {
    events: Mutex<Vec<(u64, Value)>>,
    pub enabled: AtomicBool,
    pub capture_payload: AtomicBool,
    fault: Mutex<Option<FaultPlan>>,
    fault_count: AtomicU64,
    pub fault_hits: AtomicI64,
    /// sequence number of the injected fault (0 = none yet)
    pub fault_seq: AtomicU64,
    armed: AtomicBool,
}

impl Recorder {
    pub fn new() -> Arc<Self> {
        Arc::new(Self {
            events: Mutex::new(Vec::new()),
            enabled: AtomicBool::new(true),
            capture_payload: AtomicBool::new(false),
            fault: Mutex::new(None),
            fault_count: AtomicU64::new(0),
            fault_hits: AtomicI64::new(0),
            fault_seq: AtomicU64::new(0),
            armed: AtomicBool::new(true),
        })
    }

    pub fn install(self: &Arc<Self>) {
        pearl::verif::set_tap(Some(self.clone() as Arc<dyn Tap>));
    }

    pub fn uninstall() {
        pearl::verif::set_tap(None);
    }

    /// disarm / re-arm the fault without resetting its occurrence counter
    pub fn set_armed(&self, on: bool) {
        self.armed.store(on, Ordering::SeqCst);
    }

    pub fn set_fault(&self, plan: Option<FaultPlan>) {
        *self.fault.lock().unwrap() = plan;
        self.fault_count.store(0, Ordering::SeqCst);
        self.fault_seq.store(0, Ordering::SeqCst);
    }

    fn push(&self, seq: u64, v: Value) {
        if self.enabled.load(Ordering::SeqCst) {
            self.events.lock().unwrap().push((seq, v));
        }
    }

    /// driver-side event (API call / return, quiescence marker, reset ...)
    pub fn driver_event(&self, ev: &str, op: &str, id: i64, ok: bool, a: i64) {
        let seq = pearl::verif::next_seq();
        self.push(seq, base_event(seq, ev, "", "", id, "", 0, 0, a, op, ok));
    }

    /// driver-side event about one file (external damage between sessions)
    pub fn file_event(&self, ev: &str, f: &str, kind: &str, id: i64) {
        let seq = pearl::verif::next_seq();
        self.push(seq, base_event(seq, ev, f, kind, id, "w", 0, 0, 0, "", true));
    }

    /// take all events recorded so far, in sequence order
    pub fn drain(&self) -> Vec<Value> {
        let mut v = std::mem::take(&mut *self.events.lock().unwrap());
        v.sort_by_key(|x| x.0);
        v.into_iter().map(|x| x.1).collect()
    }
}

#[allow(clippy::too_many_arguments)]
pub fn base_event(seq: u64, ev: &str, f: &str, k: &str, id: i64, loc: &str, off: u64, len: u64, a: i64, op: &str, ok: bool) -> Value {
    json!({"seq": seq, "ev": ev, "f": f, "k": k, "id": id, "loc": loc, "off": off, "len": len,
           "a": a, "op": op, "ok": if ok { 1 } else { 0 }, "f2": ""})
}

impl Tap for Recorder {
    fn io(&self, ev: &IoEvent<'_>) -> Verdict {
        let (kind, id, loc) = classify(ev.path);
        let name = file_name_of(&kind, id, &loc);
        let opn = op_name(ev.op);
        // fault decision first (so that the recorded event carries the outcome)
        let mut verdict = Verdict::Proceed;
        {
            let plan = if self.armed.load(Ordering::SeqCst) { self.fault.lock().unwrap().clone() } else { None };
            if let Some(p) = plan {
                let op_match = p.op == opn;
                let kind_match = p.kind == "any" || p.kind == kind;
                // a short write is shorter than the write: a "short" write of everything is a success
                let short_ok = p.how != "short" || ev.len > p.short;
                if op_match && kind_match && short_ok {
                    let n = self.fault_count.fetch_add(1, Ordering::SeqCst) + 1;
                    if n == p.nth {
                        verdict = match p.how.as_str() {
                            "short" => Verdict::Short(p.short),
                            "enospc" => Verdict::Fail(28),
                            _ => Verdict::Fail(5),
                        };
                        self.fault_hits.fetch_add(1, Ordering::SeqCst);
                        self.fault_seq.store(ev.seq, Ordering::SeqCst);
                    }
                }
            }
        }
        let mut a: i64 = match ev.op {
            IoOp::SyncBegin | IoOp::Sync | IoOp::SyncEnd => ev.off as i64,
            _ => 0,
        };
        let mut extra: Option<(u64, u64)> = None;
        if ev.op == IoOp::WriteAt && kind == "index" && ev.off == 0 {
            // index header rewrite: expose the written bit and the described blob size
            let mut buf = Vec::new();
            for b in ev.bufs {
                buf.extend_from_slice(b);
            }
            if let Some((bs, written)) = crate::drive::index_header_info(&buf) {
                extra = Some((bs, written as u64));
                a = bs as i64;
            }
        }
        let len = if ev.op == IoOp::Open { std::fs::metadata(ev.path).map(|m| m.len()).unwrap_or(0) } else { ev.len };
        let mut v = base_event(ev.seq, opn, &name, &kind, id, &loc, ev.off, len, a, "", verdict == Verdict::Proceed);
        v["w"] = json!(0);
        if let Some((_, w)) = extra {
            v["w"] = json!(w);
        }
        if let Some(p2) = ev.path2 {
            let (k2, id2, loc2) = classify(p2);
            v["f2"] = json!(file_name_of(&k2, id2, &loc2));
        }
        match verdict {
            Verdict::Short(n) => {
                v["short"] = json!(n);
            }
            _ => {}
        }
        if self.capture_payload.load(Ordering::SeqCst) && !ev.bufs.is_empty() {
            let mut buf = Vec::new();
            for b in ev.bufs {
                buf.extend_from_slice(b);
            }
            v["data"] = json!(hex(&buf));
        }
        self.push(ev.seq, v);
        verdict
    }

    fn event(&self, seq: u64, name: &'static str, fields: &[(&'static str, u64)], key: Option<&[u8]>) {
        let get = |n: &str| fields.iter().find(|f| f.0 == n).map(|f| f.1);
        let id = get("blob").map(|x| x as i64).unwrap_or(-1);
        let mut v = base_event(seq, name, &file_name_of("blob", id, "w"), "blob", id, "w", get("off").unwrap_or(0), get("len").unwrap_or(0),
            get("blob_size").or(get("optype")).or(get("panic")).unwrap_or(0) as i64, "", get("ok").unwrap_or(1) == 1);
        for (n, x) in fields {
            if !matches!(*n, "blob" | "off" | "len" | "ok") {
                v[*n] = json!(x);
            }
        }
        v["opid"] = json!(CURRENT_OP.with(|c| c.get()));
        if let Some(k) = key {
            // model keys are small numbers in the last 8 bytes
            let n = k.len().min(8);
            let mut b = [0u8; 8];
            b[8 - n..].copy_from_slice(&k[k.len() - n..]);
            v["key"] = json!(u64::from_be_bytes(b));
        }
        self.push(seq, v);
    }
}

pub fn hex(b: &[u8]) -> String {
    let mut s = String::with_capacity(b.len() * 2);
    for x in b {
        s.push_str(&format!("{:02x}", x));
    }
    s
}

pub fn unhex(s: &str) -> Vec<u8> {
    (0..s.len() / 2).map(|i| u8::from_str_radix(&s[2 * i..2 * i + 2], 16).unwrap_or(0)).collect()
}
