//! Tap implementations: trace recorder, fault injector, gates (filled in by the I/O drivers).
