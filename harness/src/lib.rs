//! Shared parts of the conformance harness: mapping between the abstract alphabet of the
//! TLA+ specification and the concrete pearl API, quiescence waits, observation of the
//! real storage.  The harness contains no model of pearl: expected values always come from
//! TLC (behaviour lines) or are judged by TLC (recorded traces).

pub mod drive;
pub mod tap;

use serde::{Deserialize, Serialize};
use std::path::{Path, PathBuf};
use std::time::{Duration, Instant};

/// Run-level configuration of the harness (dimension flags of DESIGN.md 4.2).
#[derive(Debug, Clone, Serialize, Deserialize)]
pub struct HCfg {
    /// key length in bytes (monomorphised: 1, 4, 8, 32, 1000, 1300, 2000)
    #[serde(default = "d_ks")]
    pub ks: usize,
    /// "small" (1000 bits, 2 hashers) | "odd" (317 bits, 3 hashers) | "off" | "default"
    #[serde(default = "d_bloom")]
    pub bloom: String,
    #[serde(default = "d_group")]
    pub group: usize,
    /// "mt" multi-thread runtime | "ct" current-thread runtime
    #[serde(default = "d_rt")]
    pub rt: String,
    /// wait for background quiescence after every call
    #[serde(default = "d_true")]
    pub wait: bool,
    #[serde(default = "d_true")]
    pub allow_dup: bool,
    /// max_data_in_blob; 0 = effectively unlimited
    #[serde(default)]
    pub max_recs: u64,
    /// deferred index dump fires (1 ms) or practically never (1 h)
    #[serde(default = "d_true")]
    pub deferred_fires: bool,
    #[serde(default)]
    pub validate_regen: bool,
    /// max_dirty_bytes_before_sync (None = pearl default)
    #[serde(default)]
    pub dirty_limit: Option<u64>,
    #[serde(default)]
    pub seed: u64,
    /// Builder::ignore_corrupted: unreadable blobs are left where they are instead of being quarantined
    #[serde(default)]
    pub ignore_corrupted: bool,
}
fn d_ks() -> usize { 4 }
fn d_bloom() -> String { "small".into() }
fn d_group() -> usize { 8 }
fn d_rt() -> String { "mt".into() }
fn d_true() -> bool { true }

impl Default for HCfg {
    fn default() -> Self {
        serde_json::from_str("{}").unwrap()
    }
}

/// Scratch root: /dev/shm when present, otherwise a directory outside /repo and /verif.
pub fn scratch_root() -> PathBuf {
    if let Ok(p) = std::env::var("VERIF_SCRATCH") {
        return PathBuf::from(p);
    }
    let shm = Path::new("/dev/shm");
    if shm.is_dir() {
        shm.join("pearl-verif")
    } else {
        std::env::temp_dir().join("pearl-verif")
    }
}

/// Wait until no background work is in flight.  Returns Err on deadline (tool problem,
/// not a verdict) unless the worker is dead (then returns Ok: nothing more will happen).
pub async fn wait_quiescent(include_deferred: bool, deadline: Duration) -> Result<(), String> {
    use pearl::verif::PROBE;
    use std::sync::atomic::Ordering::SeqCst;
    let start = Instant::now();
    let mut stable = 0;
    loop {
        let q = PROBE.quiescent() && (!include_deferred || PROBE.deferred.load(SeqCst) == 0);
        if q {
            stable += 1;
            if stable >= 2 {
                return Ok(());
            }
        } else {
            stable = 0;
            if PROBE.workers_alive.load(SeqCst) == 0
                && PROBE.dump_tasks.load(SeqCst) == 0
                && PROBE.fsync_tasks.load(SeqCst) == 0
                && PROBE.blocking.load(SeqCst) == 0
            {
                // only unprocessable messages are left
                return Ok(());
            }
        }
        if start.elapsed() > deadline {
            return Err(format!(
                "quiescence deadline: msgs={} dump={} fsync={} blocking={} deferred={} alive={}",
                PROBE.msgs.load(SeqCst),
                PROBE.dump_tasks.load(SeqCst),
                PROBE.fsync_tasks.load(SeqCst),
                PROBE.blocking.load(SeqCst),
                PROBE.deferred.load(SeqCst),
                PROBE.workers_alive.load(SeqCst)
            ));
        }
        if stable == 0 {
            tokio::time::sleep(Duration::from_micros(200)).await;
        } else {
            tokio::task::yield_now().await;
        }
    }
}

/// The probe gauges are process-global; a stale message count of a dead worker must not
/// leak into the next storage instance.
pub fn reset_probe_after_dead_worker() {
    use pearl::verif::PROBE;
    use std::sync::atomic::Ordering::SeqCst;
    if PROBE.workers_alive.load(SeqCst) == 0 {
        PROBE.msgs.store(0, SeqCst);
        PROBE.deferred.store(0, SeqCst);
    }
}

pub fn build_runtime(rt: &str) -> tokio::runtime::Runtime {
    match rt {
        "ct" => tokio::runtime::Builder::new_current_thread()
            .enable_all()
            .build()
            .expect("runtime"),
        _ => tokio::runtime::Builder::new_multi_thread()
            .worker_threads(2)
            .max_blocking_threads(8)
            .enable_all()
            .build()
            .expect("runtime"),
    }
}

/// Parse one line of TLC output: `<<"TAG", "json...">>` -> json text
pub fn tlc_line_payload<'a>(line: &'a str, tag: &str) -> Option<String> {
    let prefix = format!("<<\"{}\", \"", tag);
    let l = line.trim_end();
    if !l.starts_with(&prefix) || !l.ends_with("\">>") {
        return None;
    }
    let inner = &l[prefix.len() - 1..l.len() - 2]; // keeps both quotes
    serde_json::from_str::<String>(inner).ok()
}
