//! C08: concurrent clients on the real storage, recorded for TraceConc.
//!
//! args: --cfg <HCfg json> --clients N --ops M --keys K --out trace.ndjson [--sessions 2] [--deadline-s 60]
//! Every client call is logged with invocation / response numbers from the hook's global counter;
//! the storage's `append` events (emitted under the blob lock) carry the id of the client operation
//! they belong to (thread-local set around every poll of the operation's future).
//! stdout: RESULT line; MISMATCH lines for direct findings (stuck operations, unreadable blobs).

use bytes::Bytes;
use pearl::{ArrayKey, BlobRecordTimestamp, ReadResult, Storage};
use pearl_verif_harness::drive::*;
use pearl_verif_harness::tap::{self, CURRENT_OP};
use pearl_verif_harness::*;
use rand::{rngs::StdRng, Rng, SeedableRng};
use serde_json::{json, Value};
use std::future::Future;
use std::pin::Pin;
use std::sync::atomic::{AtomicU64, Ordering};
use std::sync::{Arc, Mutex};
use std::task::{Context, Poll};
use std::time::Duration;

const N: usize = 8;

fn arg(name: &str) -> Option<String> {
    let a: Vec<String> = std::env::args().collect();
    a.iter().position(|x| x == name).and_then(|i| a.get(i + 1).cloned())
}

/// sets the thread-local "current client operation" around every poll
struct Tagged<F: Future> { id: u64, fut: Pin<Box<F>> }
impl<F: Future> Future for Tagged<F> {
    type Output = F::Output;
    fn poll(mut self: Pin<&mut Self>, cx: &mut Context<'_>) -> Poll<F::Output> {
        let id = self.id;
        CURRENT_OP.with(|c| c.set(id));
        let r = self.fut.as_mut().poll(cx);
        CURRENT_OP.with(|c| c.set(0));
        r
    }
}
fn tagged<F: Future>(id: u64, f: F) -> Tagged<F> { Tagged { id, fut: Box::pin(f) } }

struct Log { lines: Mutex<Vec<(u64, Value)>> }
impl Log {
    fn push(&self, v: Value) {
        let seq = pearl::verif::next_seq();
        let mut v = v;
        v["seq"] = json!(seq);
        self.lines.lock().unwrap().push((seq, v));
    }
}

fn decode_value(b: &[u8], payloads: &Mutex<std::collections::HashMap<u64, usize>>) -> i64 {
    if b.len() < 8 { return -999; }
    let mut idb = [0u8; 8];
    for i in 0..8 { idb[i] = b[i] ^ 0x5a; }
    let v = u64::from_le_bytes(idb);
    let len = payloads.lock().unwrap().get(&v).cloned();
    match len { Some(l) if payload(v, l)[..] == b[..] => v as i64, _ => -999 }
}

#[allow(clippy::too_many_arguments)]
async fn client(c: u64, st: Arc<Storage<ArrayKey<N>>>, log: Arc<Log>, ops: u64, keys: u64, seed: u64,
                next_op: Arc<AtomicU64>, payloads: Arc<Mutex<std::collections::HashMap<u64, usize>>>, done: Arc<AtomicU64>) {
    let mut rng = StdRng::seed_from_u64(seed);
    let restore_mode = RESTORE_MODE.load(Ordering::SeqCst) > 0;
    if restore_mode && c == 1 {
        // the administrator of the restore mode: fills the keys once, then closes the active blob, waits for its
        // index dump and restores it, over and over, while every other client only reads
        for k in 1..=keys {
            let opid = next_op.fetch_add(1, Ordering::SeqCst) + 1;
            let len = 8 + (opid % 23) as usize;
            payloads.lock().unwrap().insert(opid, len);
            log.push(json!({"ev": "inv", "c": c, "op": "write", "k": k, "ts": 3, "opid": opid}));
            let r = tagged(opid, st.write(&model_key::<N>(k), Bytes::from(payload(opid, len)), BlobRecordTimestamp::new(3))).await;
            log.push(json!({"ev": "resp", "c": c, "opid": opid, "rt": if r.is_ok() { "ok" } else { "err" }, "rn": 0}));
        }
        for _ in 0..ops {
            let opid = next_op.fetch_add(1, Ordering::SeqCst) + 1;
            log.push(json!({"ev": "adm", "c": c, "op": 10, "opid": opid}));
            let a = st.try_close_active_blob().await.is_ok();
            let _ = wait_quiescent(true, Duration::from_secs(10)).await;
            let b = st.try_restore_active_blob().await.is_ok();
            log.push(json!({"ev": "admdone", "c": c, "opid": opid, "ok": a && b}));
            tokio::task::yield_now().await;
        }
        done.fetch_add(1, Ordering::SeqCst);
        return;
    }
    for _ in 0..ops {
        let opid = next_op.fetch_add(1, Ordering::SeqCst) + 1;
        let k = rng.gen_range(1..=keys);
        let ts = rng.gen_range(1..=6u64);
        let key = model_key::<N>(k);
        let dice = if restore_mode { rng.gen_range(65..100) } else { rng.gen_range(0..100) };   // restore mode: queries only
        // lifecycle calls race with the data operations (--lifecycle P: P in 1000 operations): the active
        // blob is closed under the writers' feet, restored or created explicitly; data operations must not
        // care (a write creates the active blob it needs).  Logged as `adm` events, which carry no data.
        let life = LIFECYCLE.load(Ordering::SeqCst);
        if life > 0 && rng.gen_range(0..1000) < life {
            let what = rng.gen_range(0..6);
            log.push(json!({"ev": "adm", "c": c, "op": what, "opid": opid}));
            let r = match what {
                0 | 1 => st.try_close_active_blob().await.is_ok(),
                2 => st.try_restore_active_blob().await.is_ok(),
                3 => st.try_create_active_blob().await.is_ok(),
                // the worker creates the next blob on its own while clients may be creating one, too
                _ => { st.force_update_active_blob(|_| true).await; true }
            };
            log.push(json!({"ev": "admdone", "c": c, "opid": opid, "ok": r}));
            continue;
        }
        if dice < 55 {
            let len = 8 + (opid % 23) as usize + if dice < 3 { 5000 } else { 0 };
            payloads.lock().unwrap().insert(opid, len);
            log.push(json!({"ev": "inv", "c": c, "op": "write", "k": k, "ts": ts, "opid": opid}));
            let r = tagged(opid, st.write(&key, Bytes::from(payload(opid, len)), BlobRecordTimestamp::new(ts))).await;
            log.push(json!({"ev": "resp", "c": c, "opid": opid, "rt": if r.is_ok() { "ok" } else { "err" }, "rn": 0}));
        } else if dice < 65 {
            log.push(json!({"ev": "inv", "c": c, "op": "delete", "k": k, "ts": ts, "opid": opid}));
            let r = tagged(opid, st.delete(&key, BlobRecordTimestamp::new(ts), dice % 2 == 0)).await;
            match r { Ok(n) => log.push(json!({"ev": "resp", "c": c, "opid": opid, "rt": "cnt", "rn": n})), Err(_) => log.push(json!({"ev": "resp", "c": c, "opid": opid, "rt": "err", "rn": 0})) }
        } else if dice < 88 {
            log.push(json!({"ev": "inv", "c": c, "op": "read", "k": k, "ts": 0, "opid": opid}));
            let r = tagged(opid, st.read(&key)).await;
            let (rt, rn) = match r { Ok(ReadResult::Found(b)) => ("F".to_string(), decode_value(&b, &payloads)), Ok(ReadResult::Deleted(t)) => ("D".into(), tsu(t) as i64), Ok(ReadResult::NotFound) => ("N".into(), 0), Err(e) => (format!("err {e:#}"), 0) };
            log.push(json!({"ev": "resp", "c": c, "opid": opid, "rt": rt, "rn": rn}));
        } else {
            log.push(json!({"ev": "inv", "c": c, "op": "contains", "k": k, "ts": 0, "opid": opid}));
            let r = tagged(opid, st.contains(&key)).await;
            let (rt, rn) = match r { Ok(ReadResult::Found(t)) => ("F".to_string(), tsu(t) as i64), Ok(ReadResult::Deleted(t)) => ("D".into(), tsu(t) as i64), Ok(ReadResult::NotFound) => ("N".into(), 0), Err(e) => (format!("err {e:#}"), 0) };
            log.push(json!({"ev": "resp", "c": c, "opid": opid, "rt": rt, "rn": rn}));
        }
        if rng.gen_range(0..4) == 0 { tokio::task::yield_now().await; }
    }
    done.fetch_add(1, Ordering::SeqCst);
}

async fn finals(st: &Storage<ArrayKey<N>>, log: &Log, keys: u64, payloads: &Mutex<std::collections::HashMap<u64, usize>>) {
    for k in 1..=keys {
        let key = model_key::<N>(k);
        let (rt, rn) = match st.read(&key).await { Ok(ReadResult::Found(b)) => ("F".to_string(), decode_value(&b, payloads)), Ok(ReadResult::Deleted(t)) => ("D".into(), tsu(t) as i64), Ok(ReadResult::NotFound) => ("N".into(), 0), Err(e) => (format!("err {e:#}"), 0) };
        log.push(json!({"ev": "final", "op": "read", "k": k, "rt": rt, "rn": rn}));
        let (rt, rn) = match st.contains(&key).await { Ok(ReadResult::Found(t)) => ("F".to_string(), tsu(t) as i64), Ok(ReadResult::Deleted(t)) => ("D".into(), tsu(t) as i64), Ok(ReadResult::NotFound) => ("N".into(), 0), Err(e) => (format!("err {e:#}"), 0) };
        log.push(json!({"ev": "final", "op": "contains", "k": k, "rt": rt, "rn": rn}));
    }
}

static LIFECYCLE: AtomicU64 = AtomicU64::new(0);
static ACCOUNTING: Mutex<Vec<Value>> = Mutex::new(Vec::new());
static RESTORE_MODE: AtomicU64 = AtomicU64::new(0);

fn main() {
    LIFECYCLE.store(arg("--lifecycle").and_then(|s| s.parse().ok()).unwrap_or(0), Ordering::SeqCst);
    RESTORE_MODE.store(if std::env::args().any(|a| a == "--restore-mode") { 1 } else { 0 }, Ordering::SeqCst);
    let cfg: HCfg = serde_json::from_str(&arg("--cfg").unwrap_or("{}".into())).expect("cfg");
    let clients: u64 = arg("--clients").and_then(|s| s.parse().ok()).unwrap_or(8);
    let ops: u64 = arg("--ops").and_then(|s| s.parse().ok()).unwrap_or(50);
    let keys: u64 = arg("--keys").and_then(|s| s.parse().ok()).unwrap_or(10);
    let sessions: u64 = arg("--sessions").and_then(|s| s.parse().ok()).unwrap_or(2);
    // bursts per session: all clients run ops/rounds operations, then the driver waits for quiescence
    // (one `quiescent` driver event per burst: where DirtyBoundedAtQuiescence is evaluated)
    let rounds: u64 = arg("--rounds").and_then(|s| s.parse().ok()).unwrap_or(1).max(1);
    let deadline: u64 = arg("--deadline-s").and_then(|s| s.parse().ok()).unwrap_or(60);
    let out = arg("--out").expect("--out");
    let dir = scratch_root().join(format!("conc-{}", std::process::id()));
    let _ = std::fs::remove_dir_all(&dir);
    std::fs::create_dir_all(&dir).unwrap();
    let rt = build_runtime(&cfg.rt);
    let rec = tap::Recorder::new();
    rec.install();
    let log = Arc::new(Log { lines: Mutex::new(vec![]) });
    let payloads = Arc::new(Mutex::new(std::collections::HashMap::new()));
    let next_op = Arc::new(AtomicU64::new(0));
    let mut findings: Vec<Value> = Vec::new();
    log.push(json!({"ev": "reset"}));
    let mut total_ops = 0u64;
    for session in 0..sessions {
        if session > 0 {
            // a new storage object on the same directory: blobs are ordered by their ids again
            log.push(json!({"ev": "reopen"}));
        }
        let (cfg2, dir2, log2, pl2, no2) = (cfg.clone(), dir.clone(), log.clone(), payloads.clone(), next_op.clone());
        let rec_q = rec.clone();
        let res: Result<(), String> = rt.block_on(async move {
            let mut d = Driver::<N>::new(cfg2.clone(), dir2.clone(), keys);
            d.open(false).await?;
            if cfg2.max_recs > 0 {
                // rotation is only requested for blobs older than the debounce interval
                tokio::time::sleep(Duration::from_millis(260)).await;
            }
            let st = Arc::new(d.storage.take().unwrap());
            for round in 0..rounds {
                let done = Arc::new(AtomicU64::new(0));
                let mut handles = Vec::new();
                for c in 0..clients {
                    handles.push(tokio::spawn(client(c + 1, st.clone(), log2.clone(), (ops / rounds).max(1), keys, cfg2.seed * 7919 + session * 1000 + round * 100_000 + c, no2.clone(), pl2.clone(), done.clone())));
                }
                let all = async { for h in handles { let _ = h.await; } };
                if tokio::time::timeout(Duration::from_secs(deadline), all).await.is_err() {
                    return Err(format!("deadlock: {} of {} clients did not finish within {} s (probe: msgs={} blocking={})", clients - done.load(Ordering::SeqCst), clients, deadline,
                        pearl::verif::PROBE.msgs.load(Ordering::SeqCst), pearl::verif::PROBE.blocking.load(Ordering::SeqCst)));
                }
                wait_quiescent(rounds == 1, Duration::from_secs(60)).await?;
                rec_q.driver_event("quiescent", "", -1, true, 0);
            }
            finals(&st, &log2, keys, &pl2).await;
            // C15 at quiescence of a concurrent session: every blob file is a blob the storage counts, and the next
            // id is the one after the highest id in the directory
            {
                let files: Vec<u64> = list_files(&dir2).into_iter().filter(|f| !f.1).map(|f| f.0).collect();
                let bc = st.blobs_count().await as u64;
                let nid = st.next_blob_id() as u64;
                let maxid = files.iter().max().copied();
                if bc != files.len() as u64 || Some(nid) != maxid.map(|m| m + 1) {
                    ACCOUNTING.lock().unwrap().push(json!({"kind": "accounting", "got": {"blobs_count": bc, "next_blob_id": nid, "blob_files": files.len(), "max_blob_id": maxid}, "session": session}));
                }
            }
            let st = Arc::try_unwrap(st).map_err(|_| "storage still shared".to_string())?;
            st.close().await.map_err(|e| format!("close: {e:#}"))?;
            Ok(())
        });
        total_ops += clients * ops;
        if let Err(e) = res {
            findings.push(json!({"kind": if e.starts_with("deadlock") { "deadlock" } else { "error" }, "got": e, "session": session}));
            break;
        }
        // every blob file parses completely
        for (id, is_index, p) in list_files(&dir) {
            if !is_index {
                if let Err(e) = pearl::tools::validate_blob(&p) { findings.push(json!({"kind": "blob_parse", "got": format!("blob {id}: {e:#}")})); }
            }
        }
    }
    // merge the hook events (appends with their operation ids) with the driver's log
    let mut lines = std::mem::take(&mut *log.lines.lock().unwrap());
    let mut commits = 0u64;
    let all_events = rec.drain();
    if let Some(io_out) = arg("--io-out") {
        // the complete file-operation trace of the concurrent run, for TraceIO (C12 over schedules)
        use std::io::Write;
        let mut w = std::io::BufWriter::new(std::fs::File::create(&io_out).expect("io-out"));
        let limit = cfg.dirty_limit.unwrap_or(1 << 30) as i64;
        let _ = writeln!(w, "{}", tap::base_event(0, "reset", "", "", -1, "", 0, 0, limit, "", false));
        for e in all_events.iter() { let _ = writeln!(w, "{}", e); }
    }
    for e in all_events {
        // the order in which blobs become the active one is the storage's blob order within a session (it is the
        // order of their ids except when the worker installs a blob it created before a client created a newer one)
        if matches!(e["ev"].as_str(), Some("active_set") | Some("active_replaced") | Some("active_restored") | Some("active_init")) && e["id"].as_i64().unwrap_or(-1) >= 0 {
            let seq = e["seq"].as_u64().unwrap_or(0);
            lines.push((seq, json!({"ev": "activate", "seq": seq, "b": e["id"]})));
        }
        if e["ev"] == "append" {
            commits += 1;
            let seq = e["seq"].as_u64().unwrap_or(0);
            lines.push((seq, json!({"ev": "commit", "seq": seq, "opid": e["opid"], "k": e["key"].as_u64().unwrap_or(0) / 2, "ts": e["ts"], "del": e["del"], "b": e["id"], "off": e["off"]})));
        }
    }
    lines.sort_by_key(|x| x.0);
    {
        use std::io::Write;
        let mut w = std::io::BufWriter::new(std::fs::File::create(&out).expect("out"));
        for (_, l) in lines.iter() { let _ = writeln!(w, "{}", l); }
    }
    let _ = std::fs::remove_dir_all(&dir);
    findings.extend(ACCOUNTING.lock().unwrap().drain(..));
    for f in findings.iter() {
        println!("MISMATCH {}", json!({"cfg": cfg, "clients": clients, "ops": ops, "keys": keys, "mismatches": [f]}));
    }
    println!("RESULT {}", json!({"clients": clients, "ops_total": total_ops, "events": lines.len(), "commits": commits, "sessions": sessions, "findings": findings.len()}));
}
