//! C16: cases of PearlTools executed on the real offline tools.
//!
//! stdin : TLC output lines `<<"TOOLCASE", "json">>` (n records, one abstract damage, allowed outcomes)
//! args  : --dense (every byte of the damaged region instead of first / middle / last)
//! For each case a blob with n records is produced by the real storage, the abstract damage is
//! expanded into concrete bytes, and validate_blob / recovery_blob (plain, skipping) /
//! move_and_recover_blob are run; the recovered blob is validated and opened with the real
//! storage, and the set of records it serves with their original bytes must be one of the
//! sets the specification allows.

use bytes::Bytes;
use pearl::{ArrayKey, BlobRecordTimestamp, ReadResult};
use pearl_verif_harness::drive::*;
use pearl_verif_harness::*;
use serde::Deserialize;
use serde_json::{json, Value};
use std::io::BufRead;
use std::path::{Path, PathBuf};

const KS: usize = 8;

#[derive(Debug, Clone, Deserialize)]
struct DmgJ { kind: String, rec: u64, region: String }

#[derive(Debug, Clone, Deserialize)]
struct CaseJ { n: u64, dmg: DmgJ, validate: String, fails: bool, plain: Vec<Vec<u64>>, skip: Vec<Vec<u64>>,
               #[serde(default)] ivalidate: String, #[serde(default)] iread: String, #[serde(default)] migrate: String }

/// validate_blob; a panic of the tool is a rejection that is reported separately
fn vblob(p: &Path) -> Result<(), String> {
    let p2 = p.to_path_buf();
    match std::panic::catch_unwind(move || pearl::tools::validate_blob(&p2)) {
        Ok(Ok(())) => Ok(()),
        Ok(Err(e)) => Err(format!("{e:#}")),
        Err(_) => Err("panic".into()),
    }
}

fn arg_flag(name: &str) -> bool { std::env::args().any(|a| a == name) }

/// sizes of record i: (meta class, data length) - a mix of tiny, empty and two-part writes
fn rec_shape(i: u64) -> (u64, usize) {
    match i % 4 {
        1 => (0, 17),
        2 => (1, 0),
        3 => (2, 5000),
        _ => (0, 300),
    }
}

struct Layout { off: u64, hdr: u64, meta: u64, data: u64 }

fn layouts(n: u64) -> Vec<Layout> {
    let mut v = Vec::new();
    let mut off = 20u64;
    for i in 1..=n {
        let (m, d) = rec_shape(i);
        let l = Layout { off, hdr: (57 + KS) as u64, meta: meta_serialized_size(m) as u64, data: d as u64 };
        off += l.hdr + l.meta + l.data;
        v.push(l);
    }
    v
}

/// byte range (absolute) of a region of record l
fn region_range(l: &Layout, region: &str) -> (u64, u64) {
    let k = KS as u64;
    let h = l.off;
    match region {
        "magic" => (h, h + 8),
        "keylen" => (h + 8, h + 16),
        "key" => (h + 16, h + 16 + k),
        "sizes" => (h + 16 + k, h + 32 + k),
        "flags" => (h + 32 + k, h + 33 + k),
        "offset" => (h + 33 + k, h + 41 + k),
        "ts" => (h + 41 + k, h + 49 + k),
        "dcrc" => (h + 49 + k, h + 53 + k),
        "hcrc" => (h + 53 + k, h + 57 + k),
        "hdr" => (h, h + l.hdr),
        "meta" => (h + l.hdr, h + l.hdr + l.meta),
        "data" => (h + l.hdr + l.meta, h + l.hdr + l.meta + l.data),
        _ => (h, h),
    }
}

fn positions(lo: u64, hi: u64, dense: bool) -> Vec<u64> {
    if hi <= lo { return vec![]; }
    if dense { return (lo..hi).collect(); }
    let mut v = vec![lo, (lo + hi) / 2, hi - 1];
    v.sort();
    v.dedup();
    v
}

async fn make_blob(dir: &Path, n: u64) -> Result<(), String> {
    let _ = std::fs::remove_dir_all(dir);
    std::fs::create_dir_all(dir).map_err(|e| e.to_string())?;
    let mut cfg = HCfg::default();
    cfg.ks = KS;
    let mut d = Driver::<KS>::new(cfg, dir.to_path_buf(), n);
    d.open(false).await?;
    for i in 1..=n {
        let (m, len) = rec_shape(i);
        let key = key_bytes::<KS>(2 * i);
        let data = payload(i, len);
        let ts = BlobRecordTimestamp::new(10 + i);
        let st = d.storage.as_ref().unwrap();
        let r = if m == 0 { st.write(&key, Bytes::from(data), ts).await } else { st.write_with(&key, Bytes::from(data), ts, meta_of(m)).await };
        r.map_err(|e| format!("write: {e:#}"))?;
    }
    d.shutdown(true).await
}

/// records (by number) that the storage serves from `blob` with their original bytes
async fn served(blob: &Path, scratch: &Path, n: u64) -> Result<Vec<u64>, String> {
    served_keys(blob, scratch, n, false).await
}

fn rec_key(i: u64, reversed: bool) -> ArrayKey<KS> {
    let k = key_bytes::<KS>(2 * i);
    if !reversed { return k; }
    let mut b: Vec<u8> = AsRef::<[u8]>::as_ref(&k).to_vec();
    b.reverse();
    let mut a = [0u8; KS];
    a.copy_from_slice(&b);
    ArrayKey::from(a)
}

/// byte range of a region of the index file
fn idx_region(region: &str, idx: &[u8]) -> (u64, u64) {
    let ms = u64::from_le_bytes(idx[24..32].try_into().unwrap());
    let len = idx.len() as u64;
    match region {
        "imagic" => (0, 8), "icount" => (8, 16), "irhsize" => (16, 24), "imetasize" => (24, 32), "ihashlen" => (32, 40),
        "ihash" => (40, 72), "iversion" => (72, 73), "ikeysize" => (73, 75), "iblobsize" => (75, 83),
        "ifilters" => (83, 83 + ms), "itreemeta" => (83 + ms, 83 + ms + 16), "ibody" => (83 + ms + 16, len),
        _ => (0, 0),
    }
}

/// the record headers of the pristine blob, as the JSON rendering of pearl's record header
fn blob_headers(blob: &[u8], n: u64) -> std::collections::BTreeMap<Vec<u8>, Vec<Value>> {
    let mut m = std::collections::BTreeMap::new();
    let u64at = |p: u64| u64::from_le_bytes(blob[p as usize..p as usize + 8].try_into().unwrap());
    let u32at = |p: u64| u32::from_le_bytes(blob[p as usize..p as usize + 4].try_into().unwrap());
    let k = KS as u64;
    for l in layouts(n) {
        let h = l.off;
        let key = blob[(h + 16) as usize..(h + 16 + k) as usize].to_vec();
        let v = json!({"magic_byte": u64at(h), "key": key, "meta_size": u64at(h + 16 + k), "data_size": u64at(h + 24 + k), "flags": blob[(h + 32 + k) as usize],
                       "blob_offset": u64at(h + 33 + k), "timestamp": u64at(h + 41 + k), "data_checksum": u32at(h + 49 + k), "header_checksum": u32at(h + 53 + k)});
        m.entry(key).or_insert_with(Vec::new).push(v);
    }
    m
}

/// validate_index / read_index on one (possibly damaged) index file next to `blob` (None: no blob)
fn index_case(c: &CaseJ, work: &Path, blob: Option<&[u8]>, idx: &[u8], pristine_blob: &[u8]) -> Vec<Value> {
    let mut mm = Vec::new();
    let _ = std::fs::remove_dir_all(work);
    std::fs::create_dir_all(work).unwrap();
    if let Some(b) = blob { std::fs::write(blob_path(work, 0), b).unwrap(); }
    let ip = index_path(work, 0);
    std::fs::write(&ip, idx).unwrap();
    let ip2 = ip.clone();
    let v = std::panic::catch_unwind(move || pearl::tools::validate_index::<ArrayKey<KS>>(&ip2));
    match v {
        Err(_) => mm.push(json!({"tool": "validate_index", "expected": c.ivalidate, "got": "panic"})),
        Ok(r) => {
            let got = if r.is_ok() { "accept" } else { "reject" };
            if got != c.ivalidate { mm.push(json!({"tool": "validate_index", "expected": c.ivalidate, "got": got, "err": r.err().map(|e| format!("{e:#}"))})); }
        }
    }
    let ip2 = ip.clone();
    let r = std::panic::catch_unwind(move || pearl::tools::read_index_sync(&ip2));
    match r {
        Err(_) => mm.push(json!({"tool": "read_index", "expected": c.iread, "got": "panic"})),
        Ok(Err(e)) => if c.iread == "exact" { mm.push(json!({"tool": "read_index", "expected": "exact", "got": format!("err: {e:#}")})); },
        Ok(Ok(map)) => {
            let got: std::collections::BTreeMap<Vec<u8>, Vec<Value>> = map.into_iter().map(|(k, hs)| (k, hs.iter().map(|h| serde_json::to_value(h).unwrap_or(Value::Null)).collect())).collect();
            let want = blob_headers(pristine_blob, c.n);
            if c.iread != "exact" { mm.push(json!({"tool": "read_index", "expected": "error", "got": format!("ok with {} keys", got.len())})); }
            else if got != want { mm.push(json!({"tool": "read_index", "expected": "the headers of the blob", "got": format!("{:?}", got).chars().take(300).collect::<String>()})); }
        }
    }
    mm
}

async fn served_keys(blob: &Path, scratch: &Path, n: u64, reversed: bool) -> Result<Vec<u64>, String> {
    let _ = std::fs::remove_dir_all(scratch);
    std::fs::create_dir_all(scratch).map_err(|e| e.to_string())?;
    std::fs::copy(blob, blob_path(scratch, 0)).map_err(|e| e.to_string())?;
    let mut cfg = HCfg::default();
    cfg.ks = KS;
    let mut d = Driver::<KS>::new(cfg, scratch.to_path_buf(), n);
    d.open(false).await?;
    let st = d.storage.as_ref().unwrap();
    if st.corrupted_blobs_count() > 0 {
        let _ = d.shutdown(true).await;
        return Err("the storage quarantined the tool output".into());
    }
    let mut v = Vec::new();
    for i in 1..=n {
        let (m, len) = rec_shape(i);
        let key = rec_key(i, reversed);
        match st.read(&key).await {
            Ok(ReadResult::Found(b)) if &b[..] == &payload(i, len)[..] => {
                // metadata as written, too
                let ok = match st.read_with(&key, &meta_of(m)).await { Ok(ReadResult::Found(_)) => true, _ => false };
                if ok { v.push(i) } else { v.push(1000 + i) }   // 1000+i: served, but with altered metadata
            }
            Ok(ReadResult::Found(_)) => v.push(2000 + i),       // wrong bytes
            Ok(_) => {}
            Err(_) => v.push(3000 + i),                        // present for the index but unreadable
        }
    }
    let _ = d.shutdown(true).await;
    Ok(v)
}

fn main() {
    let dense = arg_flag("--dense");
    let root = scratch_root().join(format!("tools-{}", std::process::id()));
    let rt = build_runtime("mt");
    let stdin = std::io::stdin();
    let (mut cases, mut variants, mut failed) = (0u64, 0u64, 0u64);
    let mut sample: Option<Value> = None;
    let mut kinds = std::collections::BTreeMap::new();
    let mut blobs_made: std::collections::HashMap<u64, PathBuf> = Default::default();
    for line in stdin.lock().lines() {
        let line = match line { Ok(l) => l, Err(_) => break };
        let text = match tlc_line_payload(&line, "TOOLCASE") { Some(t) => t, None => continue };
        let c: CaseJ = match serde_json::from_str(&text) { Ok(c) => c, Err(e) => { eprintln!("bad case {e}"); std::process::exit(2) } };
        cases += 1;
        if sample.is_none() { sample = Some(json!({"n": c.n, "dmg": {"kind": c.dmg.kind, "rec": c.dmg.rec, "region": c.dmg.region}})); }
        *kinds.entry(format!("{}:{}", c.dmg.kind, c.dmg.region)).or_insert(0u64) += 1;
        // the pristine blob with n records (made once per n)
        let src_dir = root.join(format!("src{}", c.n));
        if !blobs_made.contains_key(&c.n) {
            let sd = src_dir.clone();
            let n = c.n;
            if let Err(e) = rt.block_on(async move { make_blob(&sd, n).await }) {
                eprintln!("cannot produce blob: {e}");
                std::process::exit(2);
            }
            blobs_made.insert(c.n, blob_path(&src_dir, 0));
        }
        let pristine = std::fs::read(&blobs_made[&c.n]).expect("pristine blob");
        let lay = layouts(c.n);
        let total: u64 = lay.last().map(|l| l.off + l.hdr + l.meta + l.data).unwrap_or(20);
        if pristine.len() as u64 != total {
            eprintln!("layout mismatch: file {} model {}", pristine.len(), total);
            std::process::exit(2);
        }
        let emit = |failed: &mut u64, label: &str, mm: Vec<Value>| {
            if !mm.is_empty() {
                *failed += 1;
                println!("MISMATCH {}", json!({"case": {"n": c.n, "dmg": {"kind": c.dmg.kind, "rec": c.dmg.rec, "region": c.dmg.region}, "variant": label}, "mismatches": mm}));
            }
        };
        // ---- index tools ------------------------------------------------------------------------------
        if !c.ivalidate.is_empty() {
            let idx = std::fs::read(index_path(&src_dir, 0)).expect("pristine index");
            let work = root.join("wi");
            let mut vs: Vec<(String, Option<Vec<u8>>, Vec<u8>)> = Vec::new();
            match c.dmg.kind.as_str() {
                "inone" => vs.push(("inone".into(), Some(pristine.clone()), idx.clone())),
                "inoblob" => vs.push(("inoblob".into(), None, idx.clone())),
                "iextend" => for extra in [1usize, 83, 4096] { let mut b = idx.clone(); b.extend(std::iter::repeat(0u8).take(extra)); vs.push((format!("extend+{extra}"), Some(pristine.clone()), b)); },
                "istale" => {
                    if c.dmg.region == "longer" { let mut b = pristine.clone(); b.extend_from_slice(&[0u8; 10]); vs.push(("stale-longer".into(), Some(b), idx.clone())); }
                    else { vs.push(("stale-shorter".into(), Some(pristine[..pristine.len() - 1].to_vec()), idx.clone())); }
                }
                "iflip" => {
                    let (lo, hi) = idx_region(&c.dmg.region, &idx);
                    for p in positions(lo, hi, dense) { for x in [0x01u8, 0x80, 0xff] { let mut b = idx.clone(); b[p as usize] ^= x; vs.push((format!("iflip@{p}^{x:02x}"), Some(pristine.clone()), b)); } }
                }
                "itrunc" => {
                    let (lo, hi) = idx_region(&c.dmg.region, &idx);
                    for p in positions(lo, hi, dense) { vs.push((format!("itrunc@{p}"), Some(pristine.clone()), idx[..p as usize].to_vec())); }
                }
                _ => {}
            }
            for (label, blob, ib) in vs {
                variants += 1;
                let mm = index_case(&c, &work, blob.as_deref(), &ib, &pristine);
                emit(&mut failed, &label, mm);
            }
            continue;
        }
        // ---- migration --------------------------------------------------------------------------------
        if !c.migrate.is_empty() {
            let (from, to) = ((c.dmg.rec / 10) as u32, (c.dmg.rec % 10) as u32);
            let work = root.join("wm");
            for validate_every in [0usize, 1] {
                variants += 1;
                let _ = std::fs::remove_dir_all(&work);
                std::fs::create_dir_all(&work).unwrap();
                let mut mm: Vec<Value> = Vec::new();
                let mut img = pristine.clone();
                img[8..12].copy_from_slice(&from.to_le_bytes());
                let input = work.join("in.blob");
                let out = work.join("out.blob");
                std::fs::write(&input, &img).unwrap();
                let (i2, o2) = (input.clone(), out.clone());
                let r = std::panic::catch_unwind(move || pearl::tools::migrate_blob(&i2, &o2, validate_every, to));
                match (r, c.migrate.as_str()) {
                    (Err(_), _) => mm.push(json!({"tool": "migrate_blob", "expected": c.migrate, "got": "panic"})),
                    (Ok(Err(_)), "error") => {}
                    (Ok(Ok(())), "error") => mm.push(json!({"tool": "migrate_blob", "expected": "error", "got": "ok"})),
                    (Ok(Err(e)), _) => mm.push(json!({"tool": "migrate_blob", "expected": c.migrate, "got": format!("err: {e:#}")})),
                    (Ok(Ok(())), want) => {
                        if std::fs::read(&input).unwrap_or_default() != img { mm.push(json!({"tool": "migrate_blob", "expected": "input untouched", "got": "input changed"})); }
                        if let Err(e) = vblob(&out) { mm.push(json!({"tool": "migrate_blob", "expected": "output validates", "got": e})); }
                        let ob = std::fs::read(&out).unwrap_or_default();
                        // metadata is a hash map: its entries may be written in another order (nothing else may differ)
                        let mask = |b: &[u8]| { let mut b = b.to_vec(); for l in lay.iter() { let (lo, hi) = region_range(l, "meta"); for p in lo..hi.min(b.len() as u64) { b[p as usize] = 0; } } b };
                        if want == "same" && (ob.len() != img.len() || mask(&ob) != mask(&img)) { mm.push(json!({"tool": "migrate_blob", "expected": "output equal to the input outside the metadata maps (nothing to migrate)", "got": format!("{} bytes, input {}", ob.len(), img.len())})); }
                        if ob.len() >= 12 && u32::from_le_bytes(ob[8..12].try_into().unwrap()) != from.max(to) { mm.push(json!({"tool": "migrate_blob", "expected": format!("version {}", from.max(to)), "got": "other version in the output header"})); }
                        if from.max(to) == 1 {
                            let scratch = work.join("st");
                            let (o3, s3, n) = (out.clone(), scratch.clone(), c.n);
                            let reversed = want == "reversed";
                            match rt.block_on(async move { served_keys(&o3, &s3, n, reversed).await }) {
                                Ok(set) => { let all: Vec<u64> = (1..=c.n).collect(); if set != all { mm.push(json!({"tool": "migrate_blob", "expected": "every record served with its bytes and metadata", "served": set, "reversed_keys": reversed})); } }
                                Err(e) => mm.push(json!({"tool": "migrate_blob+storage", "got": e})),
                            }
                        }
                    }
                }
                emit(&mut failed, &format!("migrate {from}->{to} validate_every={validate_every}"), mm);
            }
            continue;
        }
        // expand the abstract damage
        let mut imgs: Vec<(String, Vec<u8>)> = Vec::new();
        match (c.dmg.kind.as_str(), c.dmg.rec) {
            ("none", _) => imgs.push(("none".into(), pristine.clone())),
            ("flip", 0) => {
                let (lo, hi) = match c.dmg.region.as_str() { "bmagic" => (0, 8), "bversion" => (8, 12), _ => (12, 20) };
                for p in positions(lo, hi, dense) { for x in [0x01u8, 0xff] { let mut b = pristine.clone(); b[p as usize] ^= x; imgs.push((format!("flip@{p}^{x:02x}"), b)); } }
            }
            ("flip", i) => {
                let (lo, hi) = region_range(&lay[(i - 1) as usize], &c.dmg.region);
                for p in positions(lo, hi, dense) { for x in [0x01u8, 0x80, 0xff] { let mut b = pristine.clone(); b[p as usize] ^= x; imgs.push((format!("flip@{p}^{x:02x}"), b)); } }
            }
            ("trunc", 0) => { for p in positions(1, 20, dense) { imgs.push((format!("trunc@{p}"), pristine[..p as usize].to_vec())); } }
            ("trunc", i) => {
                let l = &lay[(i - 1) as usize];
                if c.dmg.region == "boundary" { imgs.push((format!("trunc@{}", l.off), pristine[..l.off as usize].to_vec())); }
                else {
                    let (lo, hi) = region_range(l, &c.dmg.region);
                    // strictly inside the region: at least one byte of it present, at least one missing
                    for p in positions(lo + 1, hi, dense) { imgs.push((format!("trunc@{p}"), pristine[..p as usize].to_vec())); }
                }
            }
            _ => {}
        }
        for (label, img) in imgs {
            variants += 1;
            let work = root.join("w");
            let _ = std::fs::remove_dir_all(&work);
            std::fs::create_dir_all(&work).unwrap();
            let input = work.join("in.blob");
            std::fs::write(&input, &img).unwrap();
            let mut mm: Vec<Value> = Vec::new();
            // validate_blob
            let v = vblob(&input);
            let got = if v.is_ok() { "accept" } else { "reject" };
            if v.as_ref().err().map(|e| e == "panic").unwrap_or(false) {
                mm.push(json!({"tool": "validate_blob", "expected": c.validate, "got": "panic"}));
            } else if c.validate != "either" && c.validate != got {
                mm.push(json!({"tool": "validate_blob", "expected": c.validate, "got": got, "err": v.err()}));
            }
            // recovery, plain and skipping
            for (skip, allowed) in [(false, &c.plain), (true, &c.skip)] {
                for validate_every in [0usize, 1] {
                    let out = work.join(format!("out-{}-{}.blob", skip, validate_every));
                    let r = std::panic::catch_unwind(|| pearl::tools::recovery_blob(&input, &out, validate_every, skip));
                    let r = match r { Ok(r) => r, Err(_) => { mm.push(json!({"tool": "recovery_blob", "skip": skip, "got": "panic"})); continue } };
                    if c.fails {
                        if r.is_ok() && out.exists() && vblob(&out).is_err() {
                            mm.push(json!({"tool": "recovery_blob", "skip": skip, "expected": "error or a valid blob", "got": "ok with an invalid output"}));
                        }
                        continue;
                    }
                    if let Err(e) = &r {
                        mm.push(json!({"tool": "recovery_blob", "skip": skip, "validate_every": validate_every, "expected": "ok", "got": format!("err: {e:#}")}));
                        continue;
                    }
                    if let Err(e) = vblob(&out) {
                        mm.push(json!({"tool": "recovery_blob", "skip": skip, "expected": "output validates", "got": e}));
                        continue;
                    }
                    // an altered format version is the business of the storage's version check (C17),
                    // not of the tools, which copy the blob header as they find it
                    if c.dmg.region == "bversion" { continue; }
                    let scratch = work.join("st");
                    let (o2, s2, n) = (out.clone(), scratch.clone(), c.n);
                    match rt.block_on(async move { served(&o2, &s2, n).await }) {
                        Ok(set) => {
                            // served with altered metadata is tolerated only where the specification says the
                            // metadata may be altered (metaflip): map 1000+i to i there
                            let metaflip = c.dmg.kind == "flip" && c.dmg.region == "meta";
                            let norm: Vec<u64> = set.iter().map(|x| if metaflip && *x >= 1000 && *x < 2000 { *x - 1000 } else { *x }).collect();
                            if !allowed.iter().any(|a| { let mut a = a.clone(); a.sort(); a == norm }) {
                                mm.push(json!({"tool": "recovery_blob", "skip": skip, "validate_every": validate_every, "expected_one_of": allowed, "served": set}));
                            }
                        }
                        Err(e) => mm.push(json!({"tool": "recovery_blob+storage", "skip": skip, "expected": "storage opens the output", "got": e})),
                    }
                }
            }
            // move_and_recover_blob = in-place recovery with skipping
            if !c.fails && c.dmg.region != "bversion" {
                let inplace = work.join("inplace.blob");
                std::fs::write(&inplace, &img).unwrap();
                let backup = work.join("inplace.blob.bak");
                let (i2, b2) = (inplace.clone(), backup.clone());
                let r = std::panic::catch_unwind(move || pearl::tools::move_and_recover_blob(&i2, &b2, 1));
                match r {
                    Err(_) => mm.push(json!({"tool": "move_and_recover_blob", "expected": "ok", "got": "panic"})),
                    Ok(Ok(())) => {
                        let back = std::fs::read(&backup).unwrap_or_default();
                        if back != img { mm.push(json!({"tool": "move_and_recover_blob", "expected": "backup is the unchanged input", "got": "backup differs"})); }
                        let scratch = work.join("st2");
                        let (o2, s2, n) = (inplace.clone(), scratch.clone(), c.n);
                        match rt.block_on(async move { served(&o2, &s2, n).await }) {
                            Ok(set) => {
                                let metaflip = c.dmg.kind == "flip" && c.dmg.region == "meta";
                                let norm: Vec<u64> = set.iter().map(|x| if metaflip && *x >= 1000 && *x < 2000 { *x - 1000 } else { *x }).collect();
                                if !c.skip.iter().any(|a| { let mut a = a.clone(); a.sort(); a == norm }) {
                                    mm.push(json!({"tool": "move_and_recover_blob", "expected_one_of": c.skip, "served": set}));
                                }
                            }
                            Err(e) => mm.push(json!({"tool": "move_and_recover_blob+storage", "got": e})),
                        }
                    }
                    Ok(Err(e)) => mm.push(json!({"tool": "move_and_recover_blob", "expected": "ok", "got": format!("{e:#}")})),
                }
            }
            if !mm.is_empty() {
                failed += 1;
                println!("MISMATCH {}", json!({"case": {"n": c.n, "dmg": {"kind": c.dmg.kind, "rec": c.dmg.rec, "region": c.dmg.region}, "variant": label}, "mismatches": mm}));
            }
        }
        if failed >= 40 { break; }
    }
    let _ = std::fs::remove_dir_all(&root);
    println!("RESULT {}", json!({"cases": cases, "variants": variants, "failed": failed, "sample": sample, "kinds": kinds}));
}
