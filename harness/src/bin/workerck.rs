//! C13, worker loop: schedules taken from counterexamples / behaviours of spec/PearlWorker.tla,
//! forced on the real storage with delays on index-file writes (the cfg(pearl_verif) tap may
//! block), and the trace of the worker loop recorded for validation against PearlWorker.
//!
//! args: --scenario busy-redefer|plain --out <ndjson> [--min-ms 400] [--slow-ms 700]
//!
//! Scenario busy-redefer (TLC counterexample of DeferredDumpsComplete with RearmOnBusy = FALSE):
//!   CloseActive; WRecv (dump task starts); TStep (task passes blob A, slowly: its time quantum
//!   runs out); DeleteInClosed(A); WRecv (deferred, deadline armed); WTimer (due, task still busy
//!   with blob B); TStep; TStep; TFinish.  Required: the index of A is dumped again without any
//!   further client action.
//! Output: RESULT {...} with dumped_after_idle = true|false; MISMATCH line when false.

use bytes::Bytes;
use pearl::verif::{IoEvent, IoOp, Tap, Verdict};
use pearl::{ArrayKey, BlobRecordTimestamp, BloomConfig, Builder, Storage};
use pearl_verif_harness::*;
use serde_json::{json, Value};
use std::collections::HashMap;
use std::path::Path;
use std::sync::{Arc, Mutex};
use std::time::{Duration, Instant};

const N: usize = 8;

fn arg(name: &str) -> Option<String> {
    let a: Vec<String> = std::env::args().collect();
    a.iter().position(|x| x == name).and_then(|i| a.get(i + 1).cloned())
}

struct DelayTap {
    start: Instant,
    /// blob id -> delay (ms) applied to the next append to its index file (one shot)
    delays: Mutex<HashMap<i64, u64>>,
    events: Mutex<Vec<Value>>,
}

impl DelayTap {
    fn log(&self, mut v: Value) {
        if v.get("seq").is_none() {
            // driver events take their place in the hook's global order
            v["seq"] = json!(pearl::verif::next_seq());
        }
        self.events.lock().unwrap().push(v);
    }
    fn ms(&self) -> u64 {
        self.start.elapsed().as_millis() as u64
    }
}

impl Tap for DelayTap {
    fn io(&self, ev: &IoEvent<'_>) -> Verdict {
        let (kind, id, _loc) = tap::classify(ev.path);
        if kind == "blob" && ev.op == IoOp::Write && ev.off == 0 {
            let d = self.delays.lock().unwrap().remove(&(1000 + id));
            if let Some(ms) = d {
                self.log(json!({"ev": "delay", "blob": id, "ms": ms, "t": self.ms(), "seq": ev.seq, "what": "blob header"}));
                std::thread::sleep(Duration::from_millis(ms));
            }
        }
        if kind == "index" && ev.op == IoOp::Write {
            let d = self.delays.lock().unwrap().remove(&id);
            if let Some(ms) = d {
                self.log(json!({"ev": "delay", "blob": id, "ms": ms, "t": self.ms(), "seq": ev.seq}));
                std::thread::sleep(Duration::from_millis(ms));
            }
        }
        Verdict::Proceed
    }
    fn event(&self, seq: u64, name: &'static str, fields: &[(&'static str, u64)], _key: Option<&[u8]>) {
        if name == "append" {
            return;
        }
        let mut v = json!({"ev": name, "seq": seq, "t": self.ms()});
        for (k, x) in fields {
            v[*k] = json!(*x);
            if *k == "blob" {
                v["id"] = json!(*x);
            }
        }
        self.log(v);
    }
}

fn key(i: u64) -> ArrayKey<N> {
    drive::key_bytes::<N>(i)
}

async fn put(st: &Storage<ArrayKey<N>>, i: u64) -> Result<(), String> {
    st.write(&key(i), Bytes::from(drive::payload(i, 40)), BlobRecordTimestamp::new(1)).await.map_err(|e| format!("write: {e:#}"))
}

fn main() {
    let scenario = arg("--scenario").unwrap_or("busy-redefer".into());
    let out = arg("--out").expect("--out");
    let min_ms: u64 = arg("--min-ms").and_then(|s| s.parse().ok()).unwrap_or(400);
    let slow_ms: u64 = arg("--slow-ms").and_then(|s| s.parse().ok()).unwrap_or(700);
    let dir = scratch_root().join(format!("workerck-{}", std::process::id()));
    let _ = std::fs::remove_dir_all(&dir);
    std::fs::create_dir_all(&dir).unwrap();
    // stale-request runs on a current-thread runtime: there the client gets to close the active blob before the
    // worker is polled for the rotation request the last write has just sent
    let rt = if scenario == "stale-request" { tokio::runtime::Builder::new_current_thread().enable_all().build().unwrap() }
             else { tokio::runtime::Builder::new_multi_thread().worker_threads(4).max_blocking_threads(8).enable_all().build().unwrap() };
    let tapo = Arc::new(DelayTap { start: Instant::now(), delays: Mutex::new(HashMap::new()), events: Mutex::new(vec![]) });
    pearl::verif::set_tap(Some(tapo.clone()));
    tapo.log(json!({"ev": "reset", "op": "fires", "t": 0}));
    let t2 = tapo.clone();
    let d2 = dir.clone();
    let scen = scenario.clone();
    let res: Result<Value, String> = rt.block_on(async move {
        let scenario = scen;
        let mut st: Storage<ArrayKey<N>> = Builder::new().work_dir(&d2).blob_file_name_prefix("vb").max_blob_size(1 << 40).max_data_in_blob(1 << 31)
            .allow_duplicates().set_filter_config(BloomConfig::default())
            .set_deferred_index_dump_times(Duration::from_millis(min_ms), Duration::from_secs(3600))
            .build().map_err(|e| format!("{e:#}"))?;
        st.init().await.map_err(|e| format!("init: {e:#}"))?;
        // blob A (id 0): keys 1, 2, 4; closed and dumped
        put(&st, 1).await?;
        put(&st, 2).await?;
        put(&st, 4).await?;
        st.try_close_active_blob().await.map_err(|e| format!("close A: {e:#}"))?;
        wait_quiescent(true, Duration::from_secs(30)).await?;
        t2.log(json!({"ev": "quiescent", "ok": 1, "t": t2.ms()}));
        st.try_create_active_blob().await.map_err(|e| format!("create B: {e:#}"))?;
        // blob B (id 1): key 3
        put(&st, 3).await?;
        wait_quiescent(true, Duration::from_secs(30)).await?;
        t2.log(json!({"ev": "quiescent", "ok": 1, "t": t2.ms()}));
        let mut dumped_after_idle = true;
        let mut detail = json!({});
        if scenario == "busy-redefer" {
            // A gets an in-memory index again (deletion of key 1) so that its dump is real work;
            // wait for that deferred dump to be over, then make A dirty once more just before the
            // active blob is closed: the dump task started by the close walks A (slow) then B (slow)
            st.delete(&key(1), BlobRecordTimestamp::new(2), false).await.map_err(|e| format!("delete: {e:#}"))?;
            wait_quiescent(true, Duration::from_secs(30)).await?;
        t2.log(json!({"ev": "quiescent", "ok": 1, "t": t2.ms()}));
            // worker is idle, nothing deferred.  Now the schedule of the counterexample:
            t2.delays.lock().unwrap().insert(0, 350);       // A: longer than the 200 ms quantum
            t2.delays.lock().unwrap().insert(1, slow_ms + min_ms);   // B: still busy when the deferred dump is due
            // A dirty (deferred dump requested, due in min_ms) ...
            st.delete(&key(2), BlobRecordTimestamp::new(2), false).await.map_err(|e| format!("delete: {e:#}"))?;
            t2.log(json!({"ev": "step", "what": "delete key 2 in A done", "t": t2.ms()}));
            // ... CloseActive: "dump" request, the task starts with A
            st.try_close_active_blob().await.map_err(|e| format!("close B: {e:#}"))?;
            t2.log(json!({"ev": "step", "what": "close B done", "t": t2.ms()}));
            // DeleteInClosed(A) while the task is behind A: waits for the blobs lock until the quantum ends
            tokio::time::sleep(Duration::from_millis(50)).await;
            let r = st.delete(&key(4), BlobRecordTimestamp::new(3), false).await.map_err(|e| format!("delete: {e:#}"))?;
            t2.log(json!({"ev": "step", "what": "second delete in A done", "n": r, "t": t2.ms()}));
            // no further client action: wait until nothing runs any more, then give the worker
            // several deferred periods
            // (a loaded machine only makes this slower: wait for the dump itself, give up after a generous bound)
            let idle_wait = Duration::from_millis(4 * min_ms + 2 * slow_ms + 3000);
            let t_start = Instant::now();
            loop {
                tokio::time::sleep(Duration::from_millis(200)).await;
                let done = {
                    let ev = t2.events.lock().unwrap();
                    let from = ev.iter().rposition(|e| e["ev"] == "step" && e["what"] == "second delete in A done").unwrap_or(0);
                    ev.iter().skip(from).any(|e| e["ev"] == "dumped" && e["blob"] == 0 && e["ok"] == 1 && e["on_disk"] == 1)
                };
                if (done && t_start.elapsed() > Duration::from_millis(2 * slow_ms + min_ms)) || t_start.elapsed() > idle_wait * 4 { break; }
            }
            // nothing runs any more (gauges), whatever the worker did: the C13 clause is judged here
            t2.log(json!({"ev": "quiescent", "ok": 1, "t": t2.ms()}));
            let ev = t2.events.lock().unwrap().clone();
            // the last "loaded"/"dumped" event of blob 0 tells whether its index is on disk
            let last_second_delete = ev.iter().rposition(|e| e["ev"] == "step" && e["what"] == "second delete in A done").unwrap_or(0);
            let dumped_a_after = ev.iter().skip(last_second_delete).any(|e| e["ev"] == "dumped" && e["blob"] == 0 && e["ok"] == 1 && e["on_disk"] == 1);
            dumped_after_idle = dumped_a_after;
            detail = json!({"deferred_gauge": pearl::verif::PROBE.deferred.load(std::sync::atomic::Ordering::SeqCst),
                            "msgs": pearl::verif::PROBE.msgs.load(std::sync::atomic::Ordering::SeqCst),
                            "dump_tasks": pearl::verif::PROBE.dump_tasks.load(std::sync::atomic::Ordering::SeqCst)});
        }
        if scenario == "stale-request" {
            // C13: a rotation request that finds nothing to rotate (the client closed the overflowed blob itself before
            // the worker got to the request) must not stop later rotations
            drop(st);
            let _ = std::fs::remove_dir_all(&d2);
            std::fs::create_dir_all(&d2).map_err(|e| e.to_string())?;
            let mut s2: Storage<ArrayKey<N>> = Builder::new().work_dir(&d2).blob_file_name_prefix("vb").max_blob_size(1 << 40).max_data_in_blob(5)
                .allow_duplicates().build().map_err(|e| format!("{e:#}"))?;
            s2.init().await.map_err(|e| format!("init: {e:#}"))?;
            for round in 0..3u64 {
                for i in 1..=6 { put(&s2, round * 10 + i).await?; }
                tokio::time::sleep(Duration::from_millis(300)).await;          // rotation debounce
                put(&s2, round * 10 + 7).await?;                               // sends the rotation request
                let _ = s2.try_close_active_blob().await;                      // the client is faster than the worker
                tokio::time::sleep(Duration::from_millis(50)).await;
            }
            wait_quiescent(true, Duration::from_secs(30)).await?;
            // now an ordinary overflow: the active blob must be switched
            for i in 1..=6 { put(&s2, 100 + i).await?; }
            tokio::time::sleep(Duration::from_millis(300)).await;
            let before = s2.blobs_count().await;
            let mut after = before;
            for i in 0..40u64 {
                put(&s2, 200 + i).await?;
                tokio::time::sleep(Duration::from_millis(100)).await;
                after = s2.blobs_count().await;
                if after > before { break; }
            }
            let in_active = s2.records_count_in_active_blob().await;
            let close_ok = matches!(tokio::time::timeout(Duration::from_secs(30), s2.close()).await, Ok(Ok(())));
            return Ok(json!({"dumped_after_idle": after > before, "close_ok": close_ok, "detail": {"blobs_before": before, "blobs_after": after, "records_in_active": in_active, "limit": 5}}));
        }
        if scenario == "late-install" {
            // C03 under a schedule: the worker prepares the next blob (id n) for force_update_active_blob before it
            // takes the storage lock; meanwhile a client, finding no active blob, creates and uses blob n + 1; then the
            // worker installs n.  Two records of one key with the same timestamp, the later one in the blob with the
            // smaller id: the answer before the close must be the answer after the reopen.
            drop(st);
            let _ = std::fs::remove_dir_all(&d2);
            std::fs::create_dir_all(&d2).map_err(|e| e.to_string())?;
            let build = |d: &std::path::Path| Builder::new().work_dir(d).blob_file_name_prefix("vb").max_blob_size(1 << 40).max_data_in_blob(1 << 31).allow_duplicates().build();
            let mut s2: Storage<ArrayKey<N>> = build(&d2).map_err(|e| format!("{e:#}"))?;
            s2.init().await.map_err(|e| format!("init: {e:#}"))?;
            put(&s2, 9).await?;
            t2.delays.lock().unwrap().insert(1000 + 1, 700);           // the header write of blob 1 is slow
            s2.force_update_active_blob(|_| true).await;              // the worker starts preparing blob 1
            tokio::time::sleep(Duration::from_millis(150)).await;
            s2.try_close_active_blob().await.map_err(|e| format!("close: {e:#}"))?;
            s2.write(&key(5), Bytes::from(drive::payload(501, 30)), BlobRecordTimestamp::new(6)).await.map_err(|e| format!("write: {e:#}"))?;   // creates blob 2
            tokio::time::sleep(Duration::from_millis(1200)).await;    // the worker installs blob 1
            wait_quiescent(true, Duration::from_secs(30)).await?;
            s2.write(&key(5), Bytes::from(drive::payload(502, 30)), BlobRecordTimestamp::new(6)).await.map_err(|e| format!("write: {e:#}"))?;   // into the active blob
            let rd = |r: anyhow::Result<pearl::ReadResult<Bytes>>| match r { Ok(pearl::ReadResult::Found(b)) => if b[..] == drive::payload(502, 30)[..] { "second write".to_string() } else if b[..] == drive::payload(501, 30)[..] { "first write".to_string() } else { "other bytes".to_string() }, Ok(_) => "not found".into(), Err(e) => format!("err {e:#}") };
            let before = rd(s2.read(&key(5)).await);
            let files_before: Vec<u64> = drive::list_files(&d2).into_iter().filter(|f| !f.1).map(|f| f.0).collect();
            s2.close().await.map_err(|e| format!("close: {e:#}"))?;
            let mut s3: Storage<ArrayKey<N>> = build(&d2).map_err(|e| format!("{e:#}"))?;
            s3.init().await.map_err(|e| format!("init: {e:#}"))?;
            let after = rd(s3.read(&key(5)).await);
            let close_ok = s3.close().await.is_ok();
            let ev = t2.events.lock().unwrap().clone();
            let order: Vec<Value> = ev.iter().filter(|e| matches!(e["ev"].as_str(), Some("active_set") | Some("active_replaced") | Some("active_init") | Some("active_closed"))).map(|e| json!([e["ev"], e["blob"]])).collect();
            return Ok(json!({"dumped_after_idle": before == after, "close_ok": close_ok, "detail": {"before": before, "after": after, "blob_files": files_before, "activations": order}}));
        }
        if scenario == "channel-full" {
            // the schedule of PearlConc's deadlock (SendUnderLock = TRUE): the channel to the worker is full of
            // requests that cannot apply while writers overflow the active blob and ask for a rotation.
            // Required: everybody finishes, the active blob is switched, close returns.
            drop(st);
            let _ = std::fs::remove_dir_all(&d2);
            std::fs::create_dir_all(&d2).map_err(|e| e.to_string())?;
            let mut st2: Storage<ArrayKey<N>> = Builder::new().work_dir(&d2).blob_file_name_prefix("vb").max_blob_size(1 << 40).max_data_in_blob(5)
                .allow_duplicates().build().map_err(|e| format!("{e:#}"))?;
            st2.init().await.map_err(|e| format!("init: {e:#}"))?;
            for i in 1..=6 { put(&st2, i).await?; }
            tokio::time::sleep(Duration::from_millis(300)).await;     // rotation debounce
            let before = st2.blobs_count().await;
            let st2 = Arc::new(st2);
            let mut hs = Vec::new();
            for f in 0..4u64 {
                let s = st2.clone();
                hs.push(tokio::spawn(async move { for _ in 0..1500 { s.create_active_blob_in_background().await; } f }));
            }
            for w in 0..4u64 {
                let s = st2.clone();
                hs.push(tokio::spawn(async move { for i in 0..60u64 { let _ = s.write(&key(100 + w * 100 + i), Bytes::from(drive::payload(i, 30)), BlobRecordTimestamp::new(1)).await; if i % 20 == 19 { tokio::time::sleep(Duration::from_millis(260)).await; } } w }));
            }
            let all = async { for h in hs { let _ = h.await; } };
            let finished = tokio::time::timeout(Duration::from_secs(45), all).await.is_ok();
            let after = if finished { tokio::time::timeout(Duration::from_secs(10), st2.blobs_count()).await.unwrap_or(0) } else { 0 };
            let close_ok = if finished {
                match Arc::try_unwrap(st2) { Ok(s) => matches!(tokio::time::timeout(Duration::from_secs(30), s.close()).await, Ok(Ok(()))), Err(_) => false }
            } else { false };
            t2.log(json!({"ev": "step", "what": "channel-full done", "finished": finished, "blobs_before": before, "blobs_after": after, "t": t2.ms()}));
            return Ok(json!({"dumped_after_idle": finished && after > before, "close_ok": close_ok,
                             "detail": {"finished": finished, "blobs_before": before, "blobs_after": after}}));
        }
        if scenario == "double-defer" {
            // two deferred-dump requests closer than the minimum time: the deadline of the first one
            // fires when the dump is not due yet and has to be armed again
            st.delete(&key(1), BlobRecordTimestamp::new(2), false).await.map_err(|e| format!("delete: {e:#}"))?;
            tokio::time::sleep(Duration::from_millis(min_ms / 3)).await;
            st.delete(&key(2), BlobRecordTimestamp::new(2), false).await.map_err(|e| format!("delete: {e:#}"))?;
            t2.log(json!({"ev": "step", "what": "second delete in A done", "t": t2.ms()}));
            let t_start = Instant::now();
            loop {
                tokio::time::sleep(Duration::from_millis(200)).await;
                let done = {
                    let ev = t2.events.lock().unwrap();
                    let from = ev.iter().rposition(|e| e["ev"] == "step").unwrap_or(0);
                    ev.iter().skip(from).any(|e| e["ev"] == "dumped" && e["blob"] == 0 && e["ok"] == 1 && e["on_disk"] == 1)
                };
                if done || t_start.elapsed() > Duration::from_millis(12 * min_ms + 6000) { break; }
            }
            let _ = wait_quiescent(false, Duration::from_secs(20)).await;
            t2.log(json!({"ev": "quiescent", "ok": if pearl::verif::PROBE.deferred.load(std::sync::atomic::Ordering::SeqCst) == 0 { 1 } else { 0 }, "t": t2.ms()}));
            let ev = t2.events.lock().unwrap().clone();
            let from = ev.iter().rposition(|e| e["ev"] == "step").unwrap_or(0);
            dumped_after_idle = ev.iter().skip(from).any(|e| e["ev"] == "dumped" && e["blob"] == 0 && e["ok"] == 1 && e["on_disk"] == 1);
            detail = json!({"deferred_gauge": pearl::verif::PROBE.deferred.load(std::sync::atomic::Ordering::SeqCst)});
        }
        let closed = tokio::time::timeout(Duration::from_secs(30), st.close()).await;
        let close_ok = matches!(closed, Ok(Ok(())));
        Ok(json!({"dumped_after_idle": dumped_after_idle, "close_ok": close_ok, "detail": detail}))
    });
    pearl::verif::set_tap(None);
    let mut events = tapo.events.lock().unwrap().clone();
    events.sort_by_key(|e| e["seq"].as_u64().unwrap_or(0));
    {
        use std::io::Write;
        let mut w = std::io::BufWriter::new(std::fs::File::create(&out).expect("out"));
        for e in events.iter() {
            let _ = writeln!(w, "{}", e);
        }
    }
    let _ = std::fs::remove_dir_all(&dir);
    match res {
        Ok(v) => {
            if v["dumped_after_idle"] != true || v["close_ok"] != true {
                let (kind, expected) = if scenario == "stale-request" {
                    ("rotation_stopped", "an overflowed active blob is switched (also after rotation requests that found nothing to rotate)")
                } else if scenario == "late-install" {
                    ("restart_changes_answer", "the answer to read(key) after close and reopen is the answer before the close")
                } else if scenario == "channel-full" {
                    ("maintenance_stuck", "every client finishes, the overflowed active blob is switched and close returns")
                } else {
                    ("deferred_dump_never_ran", "the index of the closed blob is dumped again without further client action")
                };
                println!("MISMATCH {}", json!({"scenario": scenario, "min_ms": min_ms, "slow_ms": slow_ms, "mismatches": [{"kind": kind, "expected": expected, "got": v}]}));
            }
            println!("RESULT {}", json!({"scenario": scenario, "result": v, "events": events.len()}));
        }
        Err(e) => {
            eprintln!("tool error: {e}");
            std::process::exit(2);
        }
    }
}
