//! Replay of TLC-generated behaviours of GenStore on the real storage.
//!
//! stdin: TLC output (lines `<<"BEHAVIOUR", "...">>`) or plain JSON lines (arrays of steps).
//! args : --cfg '<json HCfg>' [--nkeys n] [--stop-after n] [--sample p/q] [--out dir]
//! stdout: one line `RESULT {json}` at the end, `MISMATCH {json}` per failing behaviour.
//! exit : 0 always unless the tooling itself failed (2).

use pearl_verif_harness::drive::*;
use pearl_verif_harness::*;
use serde_json::json;
use std::io::BufRead;

static OTHER: std::sync::atomic::AtomicU64 = std::sync::atomic::AtomicU64::new(0);

fn arg(name: &str) -> Option<String> {
    let a: Vec<String> = std::env::args().collect();
    a.iter().position(|x| x == name).and_then(|i| a.get(i + 1).cloned())
}

async fn run_behaviour<const N: usize>(cfg: HCfg, beh: BehaviourJ, dir: std::path::PathBuf, nkeys: u64, rec: Option<std::sync::Arc<tap::Recorder>>) -> Result<(Vec<Mismatch>, Vec<String>), String> {
    let _ = std::fs::remove_dir_all(&dir);
    std::fs::create_dir_all(&dir).map_err(|e| e.to_string())?;
    let mut d = Driver::<N>::new(cfg, dir.clone(), nkeys);
    d.rec = rec;
    let only: Option<Vec<String>> = arg("--only").map(|s| s.split(',').map(|x| x.to_string()).collect());
    d.snapshots_on = std::env::args().any(|a| a == "--snapshots");
    if let Some(r) = &d.rec {
        // one execution = one `reset` event: a = dirty-byte limit, ok = strict (quiesced) mode
        let limit = d.cfg.dirty_limit.unwrap_or(1 << 30) as i64;
        r.driver_event("reset", "", -1, d.cfg.wait, limit);
    }
    d.open(false).await?;
    let mut out = Vec::new();
    let mut vid = 0u64;
    let steps = &beh.steps;
    for (i, st) in steps.iter().enumerate() {
        if st.act.a == "write" || st.act.a == "delete" {
            vid += 1;
        }
        let got = d.exec(&st.act, vid).await?;
        if got != st.ret {
            // the observables after a call whose outcome already differs are consequences
            out.push(Mismatch { step: i, action: st.act.a.clone(), kind: format!("ret.{}", st.act.a), expected: json!(st.ret), got: json!(got) });
            break;
        }
        d.check_snapshots(i, &st.act.a, &mut out);
        let obs = if i + 1 == steps.len() { st.obs.as_ref().or(beh.final_obs.as_ref()) } else { st.obs.as_ref() };
        if let Some(obs) = obs {
            d.compare(i, &st.act.a, obs, &mut out).await;
        }
        // observables that the property under check does not talk about never stop a behaviour
        if let Some(only) = &only {
            let (keep, other): (Vec<Mismatch>, Vec<Mismatch>) = out.drain(..).partition(|m| only.iter().any(|p| m.kind.starts_with(p.as_str())));
            out = keep;
            for m in other {
                d.log.push(format!("other: step {} {} {}", m.step, m.action, m.kind));
                OTHER.fetch_add(1, std::sync::atomic::Ordering::SeqCst);
            }
        }
        if !out.is_empty() {
            break;
        }
    }
    // `close` must return (C13); a failing close is reported like any other mismatch
    if out.is_empty() {
        d.last_active = -1;
        if let Err(e) = d.shutdown(true).await {
            out.push(Mismatch { step: steps.len(), action: "close".into(), kind: "close".into(), expected: json!("ok"), got: json!(e) });
        }
    } else {
        let _ = d.shutdown(true).await;
    }
    let log = d.log.clone();
    let _ = std::fs::remove_dir_all(&dir);
    Ok((out, log))
}

fn main() {
    let cfg: HCfg = serde_json::from_str(&arg("--cfg").unwrap_or("{}".into())).expect("cfg json");
    let nkeys: u64 = arg("--nkeys").and_then(|s| s.parse().ok()).unwrap_or(2);
    let (sp, sq): (u64, u64) = arg("--sample")
        .map(|s| { let v: Vec<u64> = s.split('/').map(|x| x.parse().unwrap()).collect(); (v[0], v[1]) })
        .unwrap_or((1, 1));
    let max_fail: usize = arg("--max-fail").and_then(|s| s.parse().ok()).unwrap_or(20);
    let root = scratch_root().join(format!("replay-{}", std::process::id()));
    let rt = build_runtime(&cfg.rt);
    // --trace <file>: record every file operation, linearization event and API call of every
    // behaviour into one NDJSON file (validated afterwards by TLC against TraceIO)
    let trace_path = arg("--trace");
    let recorder = trace_path.as_ref().map(|_| { let r = tap::Recorder::new(); r.install(); r });
    let mut trace_out = trace_path.as_ref().map(|p| std::io::BufWriter::new(std::fs::File::create(p).expect("trace file")));
    let mut trace_events = 0u64;
    let stdin = std::io::stdin();
    let mut n = 0u64;
    let mut executed = 0u64;
    let mut failed = 0usize;
    let mut steps_total = 0u64;
    let mut tool_errors = 0u64;
    let mut sample: Option<serde_json::Value> = None;
    let mut distinct = std::collections::HashSet::new();
    let mut action_counts: std::collections::BTreeMap<String, u64> = Default::default();
    for line in stdin.lock().lines() {
        let line = match line { Ok(l) => l, Err(_) => break };
        let text = if line.starts_with("<<\"BEHAVIOUR\"") {
            match tlc_line_payload(&line, "BEHAVIOUR") { Some(t) => t, None => continue }
        } else if line.starts_with('{') {
            line
        } else {
            continue;
        };
        n += 1;
        // deterministic sampling by line hash
        if sq > 1 {
            let h = fxhash(text.as_bytes()) ^ cfg.seed.wrapping_mul(0x9e3779b97f4a7c15);
            if h % sq >= sp { continue; }
        }
        let beh: BehaviourJ = match serde_json::from_str(&text) {
            Ok(s) => s,
            Err(e) => { eprintln!("bad behaviour line: {e}"); tool_errors += 1; continue; }
        };
        executed += 1;
        let steps = beh.steps.clone();
        steps_total += steps.len() as u64;
        let sig: Vec<String> = steps.iter().map(|s| s.act.a.clone()).collect();
        for s in steps.iter() {
            let label = if s.act.a == "restart" { format!("restart:{}:{}", s.act.f, s.act.s) } else { s.act.a.clone() };
            *action_counts.entry(label).or_default() += 1;
        }
        distinct.insert(fxhash(text.as_bytes()));
        if sample.is_none() {
            sample = Some(json!(steps.iter().map(|s| json!({"act": s.act, "ret": s.ret})).collect::<Vec<_>>()));
        }
        let dir = root.join(format!("b{}", executed));
        let cfg2 = cfg.clone();
        let steps2 = beh.clone();
        let rec2 = recorder.clone();
        let res = rt.block_on(async move {
            let h = tokio::spawn(async move {
                match cfg2.ks {
                    1 => run_behaviour::<1>(cfg2, steps2, dir, nkeys, rec2).await,
                    8 => run_behaviour::<8>(cfg2, steps2, dir, nkeys, rec2).await,
                    32 => run_behaviour::<32>(cfg2, steps2, dir, nkeys, rec2).await,
                    1000 => run_behaviour::<1000>(cfg2, steps2, dir, nkeys, rec2).await,
                    _ => run_behaviour::<4>(cfg2, steps2, dir, nkeys, rec2).await,
                }
            });
            h.await
        });
        match res {
            Ok(Ok((mm, log))) => {
                if !mm.is_empty() {
                    failed += 1;
                    println!("MISMATCH {}", json!({"cfg": cfg, "behaviour": beh, "mismatches": mm, "log": log, "sig": sig}));
                }
            }
            Ok(Err(e)) => {
                // tooling problem or an unexpected failure of init/close: reported as a
                // mismatch of kind "harness" with the message, decided by the caller
                failed += 1;
                println!("MISMATCH {}", json!({"cfg": cfg, "behaviour": beh, "mismatches": [{"step": -1, "action": "?", "kind": "error", "expected": "ok", "got": e}], "log": [], "sig": sig}));
            }
            Err(join) => {
                failed += 1;
                let msg = if join.is_panic() {
                    let p = join.into_panic();
                    p.downcast_ref::<String>().cloned().or_else(|| p.downcast_ref::<&str>().map(|s| s.to_string())).unwrap_or("panic".into())
                } else { "cancelled".into() };
                println!("MISMATCH {}", json!({"cfg": cfg, "behaviour": beh, "mismatches": [{"step": -1, "action": "?", "kind": "panic", "expected": "no panic", "got": msg}], "log": [], "sig": sig}));
                // a panicking behaviour may leave background state behind
                reset_probe_after_dead_worker();
            }
        }
        if let (Some(r), Some(w)) = (&recorder, trace_out.as_mut()) {
            use std::io::Write;
            for e in r.drain() {
                trace_events += 1;
                let _ = writeln!(w, "{}", e);
            }
        }
        if failed >= max_fail { break; }
    }
    let _ = std::fs::remove_dir_all(&root);
    println!("RESULT {}", json!({"lines": n, "executed": executed, "distinct": distinct.len(), "steps": steps_total, "failed": failed, "tool_errors": tool_errors, "sample": sample, "actions": action_counts, "trace_events": trace_events, "other_mismatches": OTHER.load(std::sync::atomic::Ordering::SeqCst)}));
    if tool_errors > 0 { std::process::exit(2); }
}

fn fxhash(b: &[u8]) -> u64 {
    let mut h: u64 = 0xcbf29ce484222325;
    for x in b { h ^= *x as u64; h = h.wrapping_mul(0x100000001b3); }
    h
}
