//! Replay of TLC-generated behaviours of GenStore on the real storage.
//!
//! stdin: TLC output (lines `<<"BEHAVIOUR", "...">>`) or plain JSON lines (arrays of steps).
//! args : --cfg '<json HCfg>' [--nkeys n] [--stop-after n] [--sample p/q] [--out dir]
//! stdout: one line `RESULT {json}` at the end, `MISMATCH {json}` per failing behaviour.
//! exit : 0 always unless the tooling itself failed (2).

use pearl_verif_harness::drive::*;
use pearl_verif_harness::*;
use serde_json::json;
use std::io::BufRead;

static OTHER: std::sync::atomic::AtomicU64 = std::sync::atomic::AtomicU64::new(0);

fn arg(name: &str) -> Option<String> {
    let a: Vec<String> = std::env::args().collect();
    a.iter().position(|x| x == name).and_then(|i| a.get(i + 1).cloned())
}

async fn run_behaviour<const N: usize>(cfg: HCfg, beh: BehaviourJ, dir: std::path::PathBuf, nkeys: u64, rec: Option<std::sync::Arc<tap::Recorder>>) -> Result<(Vec<Mismatch>, Vec<String>), String> {
    let _ = std::fs::remove_dir_all(&dir);
    std::fs::create_dir_all(&dir).map_err(|e| e.to_string())?;
    let mut d = Driver::<N>::new(cfg, dir.clone(), nkeys);
    d.rec = rec;
    let only: Option<Vec<String>> = arg("--only").map(|s| s.split(',').map(|x| x.to_string()).collect());
    d.snapshots_on = std::env::args().any(|a| a == "--snapshots");
    if let Some(r) = &d.rec {
        // one execution = one `reset` event: a = dirty-byte limit, ok = strict (quiesced) mode
        let limit = d.cfg.dirty_limit.unwrap_or(1 << 30) as i64;
        r.driver_event("reset", if d.cfg.deferred_fires { "fires" } else { "" }, -1, d.cfg.wait, limit);
    }
    d.open(false).await?;
    let mut out = Vec::new();
    let mut vid = 0u64;
    let steps = &beh.steps;
    for (i, st) in steps.iter().enumerate() {
        if st.act.a == "write" || st.act.a == "delete" {
            vid += 1;
        }
        let got = d.exec(&st.act, vid).await?;
        if got != st.ret {
            // the observables after a call whose outcome already differs are consequences
            out.push(Mismatch { step: i, action: st.act.a.clone(), kind: format!("ret.{}", st.act.a), expected: json!(st.ret), got: json!(got) });
            break;
        }
        d.check_snapshots(i, &st.act.a, &mut out);
        let obs = if i + 1 == steps.len() { st.obs.as_ref().or(beh.final_obs.as_ref()) } else { st.obs.as_ref() };
        if let Some(obs) = obs {
            d.compare(i, &st.act.a, obs, &mut out).await;
        }
        // observables that the property under check does not talk about never stop a behaviour
        if let Some(only) = &only {
            let (keep, other): (Vec<Mismatch>, Vec<Mismatch>) = out.drain(..).partition(|m| only.iter().any(|p| m.kind.starts_with(p.as_str())));
            out = keep;
            for m in other {
                d.log.push(format!("other: step {} {} {}", m.step, m.action, m.kind));
                OTHER.fetch_add(1, std::sync::atomic::Ordering::SeqCst);
            }
        }
        if !out.is_empty() {
            break;
        }
    }
    // C10 stated directly (behaviours of PearlFilters carry no expected observables): no key that was
    // written may be reported absent, by any query or filter, in the state the behaviour ends in
    if out.is_empty() && std::env::args().any(|a| a == "--probe-written") {
        use pearl::{BloomProvider, FilterResult, ReadResult};
        let mut written: Vec<u64> = steps.iter().filter(|s| s.act.a == "write").map(|s| s.act.k).collect();
        written.sort();
        written.dedup();
        let st = d.storage.as_ref().expect("open");
        for k in written {
            let key = model_key::<N>(k);
            let mut bad: Vec<String> = Vec::new();
            match st.read(&key).await { Ok(ReadResult::Found(_)) => {}, other => bad.push(format!("read: {:?}", other.map(|r| match r { ReadResult::Found(_) => "found", ReadResult::Deleted(_) => "deleted", ReadResult::NotFound => "not found" }))) }
            match st.contains(&key).await { Ok(ReadResult::Found(_)) => {}, other => bad.push(format!("contains: {:?}", other.map(|r| match r { ReadResult::Found(_) => "found", ReadResult::Deleted(_) => "deleted", ReadResult::NotFound => "not found" }))) }
            match st.read_all(&key).await { Ok(v) if !v.is_empty() => {}, Ok(_) => bad.push("read_all: empty".into()), Err(e) => bad.push(format!("read_all: {e:#}")) }
            if st.check_filters(&key).await == Some(false) { bad.push("check_filters: Some(false)".into()); }
            if BloomProvider::check_filter(st, &key).await == FilterResult::NotContains { bad.push("check_filter: NotContains".into()); }
            if !bad.is_empty() {
                out.push(Mismatch { step: steps.len() - 1, action: steps.last().map(|s| s.act.a.clone()).unwrap_or_default(), kind: "filter_false_negative".into(),
                    expected: json!(format!("key {k} was written: found by every query, passed by every filter")), got: json!(bad) });
            }
        }
    }
    // `close` must return (C13); a failing close is reported like any other mismatch
    if out.is_empty() {
        d.last_active = -1;
        if let Err(e) = d.shutdown(true).await {
            out.push(Mismatch { step: steps.len(), action: "close".into(), kind: "close".into(), expected: json!("ok"), got: json!(e) });
        }
    } else {
        let _ = d.shutdown(true).await;
    }
    let log = d.log.clone();
    let _ = std::fs::remove_dir_all(&dir);
    Ok((out, log))
}

/// One execution of a behaviour with one injected fault, logged for TraceStore.
/// Restart steps run with the fault disarmed (faults during start-up are C06 territory).
async fn run_faulted<const N: usize>(cfg: HCfg, beh: BehaviourJ, dir: std::path::PathBuf, nkeys: u64,
                                     rec: std::sync::Arc<tap::Recorder>, plan: tap::FaultPlan) -> Result<(Vec<serde_json::Value>, bool, bool), String> {
    use std::sync::atomic::Ordering::SeqCst;
    let _ = std::fs::remove_dir_all(&dir);
    std::fs::create_dir_all(&dir).map_err(|e| e.to_string())?;
    let mut d = Driver::<N>::new(cfg, dir.clone(), nkeys);
    d.snapshots_on = true;
    rec.set_fault(None);
    d.open(false).await?;
    let mut lines = vec![json!({"ev": "reset", "fault": format!("{}:{}:{}:{}", plan.op, plan.kind, plan.how, plan.nth)})];
    rec.set_fault(Some(plan.clone()));
    // --arm-after-restart: the fault is armed only from the second session of the behaviour on (faults on files that
    // were reopened); what a fault in the first session does is the business of the behaviours without a restart
    if std::env::args().any(|a| a == "--arm-after-restart") && beh.steps.iter().any(|s| s.act.a == "restart") {
        rec.set_armed(false);
    }
    let mut vid = 0u64;
    let mut hit_any = false;
    let mut snap_mm = Vec::new();
    let mut steps = beh.steps.clone();
    // the history ends with a restart, so that what the next session serves is compared too:
    // a graceful one, or the storage dropped without close (no index dump: the start-up scans the blob)
    let graceful = if plan.nth % 2 == 0 { 0 } else { 1 };
    steps.push(StepJ { act: ActJ { a: "restart".into(), k: 0, ts: 0, m: 0, f: graceful, s: "keep".into() }, ret: res("ok", 0), obs: None });
    let mut quarantined = false;
    for st in steps.iter() {
        if st.act.a == "write" || st.act.a == "delete" { vid += 1; }
        let before = rec.fault_hits.load(SeqCst);
        let restart = st.act.a == "restart";
        if restart { rec.set_armed(false); }
        let got = d.exec(&st.act, vid).await;
        if restart { rec.set_armed(true); }
        let got = match got {
            Ok(g) => g,
            Err(e) => {
                // close / init failed although no fault was armed: reported by the caller
                return Err(format!("{} failed: {}", st.act.a, e));
            }
        };
        let hit = rec.fault_hits.load(SeqCst) > before;
        hit_any |= hit;
        let mode = if !hit { "normal" } else if got.t == "err" { "failed" } else { "degraded" };
        d.check_snapshots(lines.len(), &st.act.a, &mut snap_mm);
        let corrupted = d.storage.as_ref().map(|s| s.corrupted_blobs_count()).unwrap_or(0);
        if corrupted > 0 { quarantined = true; }
        // a blob quarantined after the fault is "preserved intact" (checked by the snapshots);
        // its records are legitimately not served any more
        let obs = if quarantined { None } else { Some(d.observe().await) };
        lines.push(json!({"ev": "step", "a": st.act.a, "k": st.act.k, "ts": st.act.ts, "m": st.act.m, "f": st.act.f, "s": st.act.s,
            "rt": got.t, "rn": got.n, "mode": mode, "has_obs": if obs.is_some() { 1 } else { 0 }, "obs": obs.unwrap_or(json!({"keys": [], "records": -1}))}));
    }
    let _ = d.shutdown(true).await;
    let _ = std::fs::remove_dir_all(&dir);
    for m in snap_mm {
        println!("MISMATCH {}", json!({"cfg": d.cfg, "behaviour": beh, "mismatches": [m], "log": d.log, "sig": beh.steps.iter().map(|s| s.act.a.clone()).collect::<Vec<_>>(), "fault": format!("{:?}", plan)}));
    }
    Ok((lines, hit_any, quarantined))
}

/// C14: the future of step `idx` is polled `k` times (letting background work advance between
/// polls) and then dropped.  Returns the TraceStore lines, whether the operation completed within
/// k polls, and direct findings (blob files that no longer parse after the final restart).
async fn run_cancelled<const N: usize>(cfg: HCfg, beh: BehaviourJ, dir: std::path::PathBuf, nkeys: u64, idx: usize, k: usize)
    -> Result<(Vec<serde_json::Value>, bool, Vec<String>), String> {
    use bytes::Bytes;
    use pearl::BlobRecordTimestamp;
    let _ = std::fs::remove_dir_all(&dir);
    std::fs::create_dir_all(&dir).map_err(|e| e.to_string())?;
    let mut d = Driver::<N>::new(cfg, dir.clone(), nkeys);
    d.open(false).await?;
    let mut lines = vec![json!({"ev": "reset", "fault": format!("cancel step {} after {} polls", idx, k)})];
    let mut vid = 0u64;
    let mut completed = false;
    let mut steps = beh.steps.clone();
    steps.push(StepJ { act: ActJ { a: "restart".into(), k: 0, ts: 0, m: 0, f: 1, s: "keep".into() }, ret: res("ok", 0), obs: None });
    for (i, st) in steps.iter().enumerate() {
        if st.act.a == "write" || st.act.a == "delete" { vid += 1; }
        if i != idx {
            let got = d.exec(&st.act, vid).await?;
            let obs = d.observe().await;
            lines.push(json!({"ev": "step", "a": st.act.a, "k": st.act.k, "ts": st.act.ts, "m": st.act.m, "f": st.act.f, "s": st.act.s,
                "rt": got.t, "rn": got.n, "mode": "normal", "has_obs": 1, "obs": strip_records(obs)}));
            continue;
        }
        // the cancelled call
        let a = st.act.clone();
        let key = model_key::<N>(a.k);
        let ts = BlobRecordTimestamp::new(a.ts);
        let data = payload(vid, size_of_class(&a.s, N, a.m, vid));
        if a.a == "write" {
            d.payloads.insert(vid, data.clone());
        }
        let outcome: Option<ResJ>;
        {
            let stg = d.storage.as_ref().expect("open");
            let fut = async {
                match a.a.as_str() {
                    "write" => { let r = if a.m == 0 { stg.write(&key, Bytes::from(data), ts).await } else { stg.write_with(&key, Bytes::from(data), ts, meta_of(a.m)).await }; if r.is_ok() { res("ok", 0) } else { res("err", 0) } }
                    "delete" => { let r = if a.m == 0 { stg.delete(&key, ts, a.f == 1).await } else { stg.delete_with(&key, ts, meta_of(a.m), a.f == 1).await }; match r { Ok(n) => res("cnt", n as i64), Err(_) => res("err", 0) } }
                    "close_active" => if stg.try_close_active_blob().await.is_ok() { res("ok", 0) } else { res("err", 0) },
                    "create_active" => if stg.try_create_active_blob().await.is_ok() { res("ok", 0) } else { res("err", 0) },
                    "restore_active" => if stg.try_restore_active_blob().await.is_ok() { res("ok", 0) } else { res("err", 0) },
                    "fsync" => if stg.fsyncdata().await.is_ok() { res("ok", 0) } else { res("err", 0) },
                    _ => { stg.force_update_active_blob(|_| true).await; res("ok", 0) }
                }
            };
            let mut fut = Box::pin(fut);
            let mut out = None;
            for _ in 0..k {
                match futures::poll!(fut.as_mut()) {
                    std::task::Poll::Ready(r) => { out = Some(r); break; }
                    std::task::Poll::Pending => {
                        // let blocking closures / other tasks advance to the next suspension point
                        tokio::time::sleep(std::time::Duration::from_micros(400)).await;
                    }
                }
            }
            outcome = out;
            drop(fut);
        }
        completed = outcome.is_some();
        wait_quiescent(true, QUIESCE_DEADLINE).await?;
        let obs = d.observe().await;
        let (mode, rt, rn) = match &outcome { Some(r) => ("normal", r.t.clone(), r.n), None => ("maybe", "?".to_string(), 0) };
        lines.push(json!({"ev": "step", "a": a.a, "k": a.k, "ts": a.ts, "m": a.m, "f": a.f, "s": a.s,
            "rt": rt, "rn": rn, "mode": mode, "has_obs": 1, "obs": strip_records(obs)}));
    }
    // every blob file still parses completely on the next start
    let mut findings = Vec::new();
    let corrupted = d.storage.as_ref().map(|s| s.corrupted_blobs_count()).unwrap_or(0);
    if corrupted > 0 {
        findings.push(format!("{} blob file(s) quarantined at the start after the cancellation", corrupted));
    }
    for (id, is_index, p) in list_files(&dir) {
        if !is_index {
            if let Err(e) = pearl::tools::validate_blob(&p) { findings.push(format!("blob {} does not parse: {:#}", id, e)); }
        }
    }
    let _ = d.shutdown(true).await;
    let _ = std::fs::remove_dir_all(&dir);
    Ok((lines, completed, findings))
}

/// accounting is not part of "entirely or not at all" (DESIGN 6): only the data queries are judged
fn strip_records(mut obs: serde_json::Value) -> serde_json::Value {
    obs["records"] = json!(-1);
    obs
}

fn cancel_main(cfg: HCfg, nkeys: u64, out_path: String) {
    let rt = build_runtime(&cfg.rt);
    let root = scratch_root().join(format!("cancel-{}", std::process::id()));
    let mut w = std::io::BufWriter::new(std::fs::File::create(&out_path).expect("trace file"));
    let max_k: usize = arg("--max-polls").and_then(|s| s.parse().ok()).unwrap_or(24);
    let stdin = std::io::stdin();
    let (mut execs, mut errors) = (0u64, 0u64);
    let mut by_op: std::collections::BTreeMap<String, u64> = Default::default();
    let mut max_polls_seen: std::collections::BTreeMap<String, usize> = Default::default();
    let mut sample = None;
    for line in stdin.lock().lines() {
        let line = match line { Ok(l) => l, Err(_) => break };
        let text = match tlc_line_payload(&line, "BEHAVIOUR") { Some(t) => t, None => continue };
        let beh: BehaviourJ = match serde_json::from_str(&text) { Ok(b) => b, Err(_) => continue };
        for idx in 0..beh.steps.len() {
            let op = beh.steps[idx].act.a.clone();
            if !matches!(op.as_str(), "write" | "delete" | "close_active" | "create_active" | "restore_active" | "fsync" | "force_update") { continue; }
            for k in 1..=max_k {
                let dir = root.join("b");
                let (c2, b2) = (cfg.clone(), beh.clone());
                let res = rt.block_on(async move {
                    tokio::spawn(async move {
                        match c2.ks { 8 => run_cancelled::<8>(c2, b2, dir, nkeys, idx, k).await, _ => run_cancelled::<4>(c2, b2, dir, nkeys, idx, k).await }
                    }).await
                });
                let sig: Vec<String> = beh.steps.iter().map(|s| s.act.a.clone()).collect();
                match res {
                    Ok(Ok((lines, completed, findings))) => {
                        execs += 1;
                        *by_op.entry(op.clone()).or_default() += 1;
                        if sample.is_none() { sample = Some(json!({"cancelled_step": idx, "polls": k, "steps": sig})); }
                        use std::io::Write;
                        for l in lines { let _ = writeln!(w, "{}", l); }
                        for f in findings {
                            println!("MISMATCH {}", json!({"cfg": cfg, "behaviour": beh, "mismatches": [{"step": idx, "action": op, "kind": "cancel_files", "expected": "every blob file parses at the next start", "got": f}], "log": [], "sig": sig, "fault": format!("cancel step {} ({}) after {} polls", idx, op, k)}));
                        }
                        if completed {
                            let e = max_polls_seen.entry(op.clone()).or_default();
                            if k > *e { *e = k; }
                            break;     // more polls change nothing
                        }
                    }
                    Ok(Err(e)) => {
                        errors += 1;
                        println!("MISMATCH {}", json!({"cfg": cfg, "behaviour": beh, "mismatches": [{"step": idx, "action": op, "kind": "cancel_error", "expected": "later operations succeed", "got": e}], "log": [], "sig": sig, "fault": format!("cancel step {} ({}) after {} polls", idx, op, k)}));
                        reset_probe_after_dead_worker();
                        break;
                    }
                    Err(j) => {
                        errors += 1;
                        let msg = if j.is_panic() { let p = j.into_panic(); p.downcast_ref::<String>().cloned().or_else(|| p.downcast_ref::<&str>().map(|s| s.to_string())).unwrap_or("panic".into()) } else { "cancelled".into() };
                        println!("MISMATCH {}", json!({"cfg": cfg, "behaviour": beh, "mismatches": [{"step": idx, "action": op, "kind": "panic", "expected": "no panic", "got": msg}], "log": [], "sig": sig, "fault": format!("cancel step {} ({}) after {} polls", idx, op, k)}));
                        reset_probe_after_dead_worker();
                        break;
                    }
                }
            }
        }
    }
    let _ = std::fs::remove_dir_all(&root);
    println!("RESULT {}", json!({"executed": execs, "errors": errors, "by_plan": by_op, "polls_to_complete": max_polls_seen, "sample": sample,
        "lines": 0, "distinct": execs, "steps": 0, "failed": errors, "tool_errors": 0}));
}

fn fault_plans(dense: bool, ks: usize) -> Vec<tap::FaultPlan> {
    let mut v = Vec::new();
    let nths: Vec<u64> = if dense { (1..=8).collect() } else { vec![1, 2, 3, 5] };
    // a short write that stops exactly after the header + (empty) metadata part of a two-part record
    let hdr_part = (57 + ks + 8) as u64;
    for nth in nths.iter() {
        v.push(tap::FaultPlan { op: "write".into(), kind: "blob".into(), nth: *nth, how: "short".into(), short: hdr_part });
    }
    for (op, kinds, hows) in [("create", vec!["blob", "index"], vec!["enospc"]), ("write", vec!["blob", "index"], vec!["eio", "short"]),
                              ("write_at", vec!["index"], vec!["eio"]), ("sync", vec!["blob", "index"], vec!["eio"]), ("open", vec!["index"], vec!["eio"])] {
        for kind in kinds.iter() {
            for how in hows.iter() {
                for nth in nths.iter() {
                    v.push(tap::FaultPlan { op: op.to_string(), kind: kind.to_string(), nth: *nth, how: how.to_string(), short: 10 });
                }
            }
        }
    }
    v
}

fn fault_main(cfg: HCfg, nkeys: u64, out_path: String) {
    let rt = build_runtime(&cfg.rt);
    let rec = tap::Recorder::new();
    rec.enabled.store(false, std::sync::atomic::Ordering::SeqCst);
    rec.install();
    let plans = fault_plans(std::env::args().any(|a| a == "--dense"), cfg.ks);
    let root = scratch_root().join(format!("fault-{}", std::process::id()));
    let mut w = std::io::BufWriter::new(std::fs::File::create(&out_path).expect("trace file"));
    let stdin = std::io::stdin();
    let (mut execs, mut hits, mut quar, mut errors) = (0u64, 0u64, 0u64, 0u64);
    let mut by_plan: std::collections::BTreeMap<String, u64> = Default::default();
    let mut sample = None;
    for line in stdin.lock().lines() {
        let line = match line { Ok(l) => l, Err(_) => break };
        let text = match tlc_line_payload(&line, "BEHAVIOUR") { Some(t) => t, None => continue };
        let beh: BehaviourJ = match serde_json::from_str(&text) { Ok(b) => b, Err(_) => continue };
        for plan in plans.iter() {
            let dir = root.join("b");
            let (c2, b2, r2, p2) = (cfg.clone(), beh.clone(), rec.clone(), plan.clone());
            let res = rt.block_on(async move {
                tokio::spawn(async move {
                    match c2.ks {
                        8 => run_faulted::<8>(c2, b2, dir, nkeys, r2, p2).await,
                        _ => run_faulted::<4>(c2, b2, dir, nkeys, r2, p2).await,
                    }
                }).await
            });
            let label = format!("{}:{}:{}", plan.op, plan.kind, plan.how);
            match res {
                Ok(Ok((lines, hit, q))) => {
                    if !hit { continue; }          // the fault never fired: identical to the plain replay
                    execs += 1; hits += 1;
                    if q { quar += 1; }
                    *by_plan.entry(label).or_default() += 1;
                    if sample.is_none() { sample = Some(json!({"fault": format!("{:?}", plan), "steps": beh.steps.iter().map(|s| s.act.a.clone()).collect::<Vec<_>>()})); }
                    use std::io::Write;
                    for l in lines { let _ = writeln!(w, "{}", l); }
                }
                Ok(Err(e)) => {
                    errors += 1;
                    println!("MISMATCH {}", json!({"cfg": cfg, "behaviour": beh, "mismatches": [{"step": -1, "action": "?", "kind": "fault_error", "expected": "the storage keeps working after the fault cleared", "got": e}], "log": [], "sig": beh.steps.iter().map(|s| s.act.a.clone()).collect::<Vec<_>>(), "fault": format!("{:?}", plan)}));
                    reset_probe_after_dead_worker();
                }
                Err(j) => {
                    errors += 1;
                    let msg = if j.is_panic() { let p = j.into_panic(); p.downcast_ref::<String>().cloned().or_else(|| p.downcast_ref::<&str>().map(|s| s.to_string())).unwrap_or("panic".into()) } else { "cancelled".into() };
                    println!("MISMATCH {}", json!({"cfg": cfg, "behaviour": beh, "mismatches": [{"step": -1, "action": "?", "kind": "panic", "expected": "no panic", "got": msg}], "log": [], "sig": beh.steps.iter().map(|s| s.act.a.clone()).collect::<Vec<_>>(), "fault": format!("{:?}", plan)}));
                    reset_probe_after_dead_worker();
                }
            }
        }
    }
    let _ = std::fs::remove_dir_all(&root);
    println!("RESULT {}", json!({"executed": execs, "fault_hits": hits, "quarantined": quar, "errors": errors, "by_plan": by_plan, "sample": sample,
        "lines": 0, "distinct": execs, "steps": 0, "failed": errors, "tool_errors": 0}));
}

fn main() {
    if let Some(out) = arg("--cancel-out") {
        let cfg: HCfg = serde_json::from_str(&arg("--cfg").unwrap_or("{}".into())).expect("cfg json");
        let nkeys: u64 = arg("--nkeys").and_then(|s| s.parse().ok()).unwrap_or(2);
        return cancel_main(cfg, nkeys, out);
    }
    if let Some(out) = arg("--faults-out") {
        let cfg: HCfg = serde_json::from_str(&arg("--cfg").unwrap_or("{}".into())).expect("cfg json");
        let nkeys: u64 = arg("--nkeys").and_then(|s| s.parse().ok()).unwrap_or(2);
        return fault_main(cfg, nkeys, out);
    }
    let cfg: HCfg = serde_json::from_str(&arg("--cfg").unwrap_or("{}".into())).expect("cfg json");
    let nkeys: u64 = arg("--nkeys").and_then(|s| s.parse().ok()).unwrap_or(2);
    let (sp, sq): (u64, u64) = arg("--sample")
        .map(|s| { let v: Vec<u64> = s.split('/').map(|x| x.parse().unwrap()).collect(); (v[0], v[1]) })
        .unwrap_or((1, 1));
    let max_fail: usize = arg("--max-fail").and_then(|s| s.parse().ok()).unwrap_or(20);
    let root = scratch_root().join(format!("replay-{}", std::process::id()));
    let rt = build_runtime(&cfg.rt);
    // --trace <file>: record every file operation, linearization event and API call of every
    // behaviour into one NDJSON file (validated afterwards by TLC against TraceIO)
    let trace_path = arg("--trace");
    let recorder = trace_path.as_ref().map(|_| { let r = tap::Recorder::new(); r.install(); r });
    let mut trace_out = trace_path.as_ref().map(|p| std::io::BufWriter::new(std::fs::File::create(p).expect("trace file")));
    let mut trace_events = 0u64;
    let stdin = std::io::stdin();
    let mut n = 0u64;
    let mut executed = 0u64;
    let mut failed = 0usize;
    let mut steps_total = 0u64;
    let mut tool_errors = 0u64;
    let mut sample: Option<serde_json::Value> = None;
    let mut distinct = std::collections::HashSet::new();
    let mut action_counts: std::collections::BTreeMap<String, u64> = Default::default();
    for line in stdin.lock().lines() {
        let line = match line { Ok(l) => l, Err(_) => break };
        let text = if line.starts_with("<<\"BEHAVIOUR\"") {
            match tlc_line_payload(&line, "BEHAVIOUR") { Some(t) => t, None => continue }
        } else if line.starts_with('{') {
            line
        } else {
            continue;
        };
        n += 1;
        // deterministic sampling by line hash
        if sq > 1 {
            let h = fxhash(text.as_bytes()) ^ cfg.seed.wrapping_mul(0x9e3779b97f4a7c15);
            if h % sq >= sp { continue; }
        }
        let beh: BehaviourJ = match serde_json::from_str(&text) {
            Ok(s) => s,
            Err(e) => { eprintln!("bad behaviour line: {e}"); tool_errors += 1; continue; }
        };
        executed += 1;
        let steps = beh.steps.clone();
        steps_total += steps.len() as u64;
        let sig: Vec<String> = steps.iter().map(|s| s.act.a.clone()).collect();
        for s in steps.iter() {
            let label = if s.act.a == "restart" { format!("restart:{}:{}", s.act.f, s.act.s) } else { s.act.a.clone() };
            *action_counts.entry(label).or_default() += 1;
        }
        distinct.insert(fxhash(text.as_bytes()));
        if sample.is_none() {
            sample = Some(json!(steps.iter().map(|s| json!({"act": s.act, "ret": s.ret})).collect::<Vec<_>>()));
        }
        let dir = root.join(format!("b{}", executed));
        let cfg2 = cfg.clone();
        let steps2 = beh.clone();
        let rec2 = recorder.clone();
        let res = rt.block_on(async move {
            let h = tokio::spawn(async move {
                match cfg2.ks {
                    1 => run_behaviour::<1>(cfg2, steps2, dir, nkeys, rec2).await,
                    8 => run_behaviour::<8>(cfg2, steps2, dir, nkeys, rec2).await,
                    32 => run_behaviour::<32>(cfg2, steps2, dir, nkeys, rec2).await,
                    1000 => run_behaviour::<1000>(cfg2, steps2, dir, nkeys, rec2).await,
                    _ => run_behaviour::<4>(cfg2, steps2, dir, nkeys, rec2).await,
                }
            });
            h.await
        });
        match res {
            Ok(Ok((mm, log))) => {
                if !mm.is_empty() {
                    failed += 1;
                    println!("MISMATCH {}", json!({"cfg": cfg, "behaviour": beh, "mismatches": mm, "log": log, "sig": sig}));
                }
            }
            Ok(Err(e)) => {
                // tooling problem or an unexpected failure of init/close: reported as a
                // mismatch of kind "harness" with the message, decided by the caller
                failed += 1;
                println!("MISMATCH {}", json!({"cfg": cfg, "behaviour": beh, "mismatches": [{"step": -1, "action": "?", "kind": "error", "expected": "ok", "got": e}], "log": [], "sig": sig}));
            }
            Err(join) => {
                failed += 1;
                let msg = if join.is_panic() {
                    let p = join.into_panic();
                    p.downcast_ref::<String>().cloned().or_else(|| p.downcast_ref::<&str>().map(|s| s.to_string())).unwrap_or("panic".into())
                } else { "cancelled".into() };
                println!("MISMATCH {}", json!({"cfg": cfg, "behaviour": beh, "mismatches": [{"step": -1, "action": "?", "kind": "panic", "expected": "no panic", "got": msg}], "log": [], "sig": sig}));
                // a panicking behaviour may leave background state behind
                reset_probe_after_dead_worker();
            }
        }
        if let (Some(r), Some(w)) = (&recorder, trace_out.as_mut()) {
            use std::io::Write;
            for e in r.drain() {
                trace_events += 1;
                let _ = writeln!(w, "{}", e);
            }
        }
        if failed >= max_fail { break; }
    }
    let _ = std::fs::remove_dir_all(&root);
    println!("RESULT {}", json!({"lines": n, "executed": executed, "distinct": distinct.len(), "steps": steps_total, "failed": failed, "tool_errors": tool_errors, "sample": sample, "actions": action_counts, "trace_events": trace_events, "other_mismatches": OTHER.load(std::sync::atomic::Ordering::SeqCst)}));
    if tool_errors > 0 { std::process::exit(2); }
}

fn fxhash(b: &[u8]) -> u64 {
    let mut h: u64 = 0xcbf29ce484222325;
    for x in b { h ^= *x as u64; h = h.wrapping_mul(0x100000001b3); }
    h
}
