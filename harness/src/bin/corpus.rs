//! C17: directories written by the PINNED release (corpus/, generated once by corpusgen from
//! TLC-generated behaviours, each cross-checked against the specification at generation time)
//! are opened with the current code, for every present / absent combination of index files,
//! and every answer is compared with the recorded expectation.  Mismatching key size and
//! patched format versions must be rejected, never misread.
//!
//! args: <corpus dir>    stdout: MISMATCH / RESULT lines

use pearl_verif_harness::drive::*;
use pearl_verif_harness::*;
use serde_json::{json, Value};
use std::path::{Path, PathBuf};

fn copy_dir(src: &Path, dst: &Path, skip_index: &[u64]) {
    let _ = std::fs::remove_dir_all(dst);
    std::fs::create_dir_all(dst).unwrap();
    for e in std::fs::read_dir(src).unwrap().flatten() {
        let p = e.path();
        if !p.is_file() { continue; }
        let name = p.file_name().unwrap().to_string_lossy().to_string();
        if name == "expected.json" || name.ends_with(".lock") { continue; }
        if name.ends_with(".index") {
            let id: u64 = name.split('.').nth(1).and_then(|x| x.parse().ok()).unwrap_or(u64::MAX);
            if skip_index.contains(&id) { continue; }
        }
        std::fs::copy(&p, dst.join(name)).unwrap();
    }
}

const SIGNIFICANT: [&str; 8] = ["read", "contains", "all_wm", "read_all", "read_with", "check_filter", "counts.records", "read_absent"];

async fn open_and_compare<const N: usize>(cfg: HCfg, dir: PathBuf, nkeys: u64, exp: ObsJ, payloads: Vec<(u64, usize)>, lazy: bool) -> Result<Vec<Mismatch>, String> {
    let mut d = Driver::<N>::new(cfg, dir, nkeys);
    for (v, len) in payloads { d.payloads.insert(v, payload(v, len)); }
    d.open(lazy).await?;
    let mut out = Vec::new();
    d.compare(0, "open", &exp, &mut out).await;
    out.retain(|m| SIGNIFICANT.iter().any(|p| m.kind.starts_with(p)));
    let _ = d.shutdown(true).await;
    Ok(out)
}

/// opening with another key type: an error, or everything set aside untouched - never answers
async fn open_wrong_key<const N: usize>(cfg: HCfg, dir: PathBuf, nkeys: u64) -> Result<String, String> {
    let mut d = Driver::<N>::new(cfg, dir.clone(), nkeys);
    match d.open(false).await {
        Err(e) => Ok(format!("rejected: {}", &e[..e.len().min(120)])),
        Ok(()) => {
            let st = d.storage.as_ref().unwrap();
            let served = st.records_count().await;
            let _ = d.shutdown(true).await;
            if served == 0 { Ok("set aside (no record served)".into()) } else { Err(format!("{} records served through a storage with another key size", served)) }
        }
    }
}

fn main() {
    let corpus = PathBuf::from(std::env::args().nth(1).expect("corpus dir"));
    let root = scratch_root().join(format!("corpus-{}", std::process::id()));
    let rt = build_runtime("mt");
    let mut dirs: Vec<PathBuf> = std::fs::read_dir(&corpus).unwrap().flatten().map(|e| e.path()).filter(|p| p.join("expected.json").exists()).collect();
    dirs.sort();
    let (mut opened, mut failed, mut combos) = (0u64, 0u64, 0u64);
    let mut sample: Option<Value> = None;
    for dir in dirs.iter() {
        let meta: Value = serde_json::from_slice(&std::fs::read(dir.join("expected.json")).unwrap()).unwrap();
        let ks = meta["ks"].as_u64().unwrap() as usize;
        let nkeys = meta["nkeys"].as_u64().unwrap();
        SCRAMBLED_KEYS.store(meta["keymap"].as_str().unwrap_or("") == "scr", std::sync::atomic::Ordering::SeqCst);
        let exp: ObsJ = serde_json::from_value(meta["expected"].clone()).expect("expected obs");
        let payloads: Vec<(u64, usize)> = meta["payloads"].as_object().unwrap().iter().map(|(k, v)| (k.parse().unwrap(), v.as_u64().unwrap() as usize)).collect();
        let mut cfg = HCfg::default();
        cfg.ks = ks;
        cfg.bloom = meta["bloom"].as_str().unwrap().to_string();
        let idx_ids: Vec<u64> = list_files(dir).iter().filter(|f| f.1).map(|f| f.0).collect();
        if sample.is_none() { sample = Some(json!({"dir": dir.file_name().unwrap().to_string_lossy(), "ks": ks, "bloom": cfg.bloom, "index_files": idx_ids, "steps": meta["steps"]})); }
        let n = idx_ids.len().min(4);
        for mask in 0..(1u32 << n) {
            let skip: Vec<u64> = idx_ids.iter().enumerate().filter(|(i, _)| *i < n && mask >> i & 1 == 1).map(|(_, id)| *id).collect();
            for lazy in [false, true] {
                combos += 1;
                let work = root.join("d");
                copy_dir(dir, &work, &skip);
                let (c2, e2, p2, w2) = (cfg.clone(), exp.clone(), payloads.clone(), work.clone());
                let res = rt.block_on(async move {
                    tokio::spawn(async move {
                        match ks { 8 => open_and_compare::<8>(c2, w2, nkeys, e2, p2, lazy).await, 16 => open_and_compare::<16>(c2, w2, nkeys, e2, p2, lazy).await, 32 => open_and_compare::<32>(c2, w2, nkeys, e2, p2, lazy).await, _ => open_and_compare::<4>(c2, w2, nkeys, e2, p2, lazy).await }
                    }).await
                });
                opened += 1;
                let label = json!({"dir": dir.file_name().unwrap().to_string_lossy(), "absent_index_files": skip, "lazy": lazy});
                match res {
                    Ok(Ok(mm)) => if !mm.is_empty() { failed += 1; println!("MISMATCH {}", json!({"case": label, "mismatches": mm.iter().take(5).collect::<Vec<_>>()})); },
                    Ok(Err(e)) => { failed += 1; println!("MISMATCH {}", json!({"case": label, "mismatches": [{"kind": "open", "expected": "the directory opens", "got": e}]})); }
                    Err(_) => { failed += 1; println!("MISMATCH {}", json!({"case": label, "mismatches": [{"kind": "panic", "expected": "no panic", "got": "panic while opening"}]})); reset_probe_after_dead_worker(); }
                }
            }
        }
        // another key size
        let work = root.join("wk");
        copy_dir(dir, &work, &[]);
        let (c2, w2) = (cfg.clone(), work.clone());
        let res = rt.block_on(async move {
            tokio::spawn(async move { if ks == 8 { open_wrong_key::<4>(c2, w2, nkeys).await } else { open_wrong_key::<8>(c2, w2, nkeys).await } }).await
        });
        combos += 1;
        match res {
            Ok(Ok(_)) => {}
            Ok(Err(e)) => { failed += 1; println!("MISMATCH {}", json!({"case": {"dir": dir.file_name().unwrap().to_string_lossy(), "wrong_key_size": true}, "mismatches": [{"kind": "wrong_key", "expected": "rejected", "got": e}]})); }
            Err(_) => { failed += 1; println!("MISMATCH {}", json!({"case": {"dir": dir.file_name().unwrap().to_string_lossy(), "wrong_key_size": true}, "mismatches": [{"kind": "panic", "got": "panic"}]})); reset_probe_after_dead_worker(); }
        }
        // patched format versions: blob header version (bytes 8..12), index header version (byte 72, bits 1..7)
        for what in ["blob_version", "index_version"] {
            let work = root.join("pv");
            copy_dir(dir, &work, &[]);
            let mut patched = false;
            for (_, is_index, p) in list_files(&work) {
                let mut b = std::fs::read(&p).unwrap();
                if what == "blob_version" && !is_index && b.len() >= 12 { b[8] = b[8].wrapping_add(1); std::fs::write(&p, b).unwrap(); patched = true; }
                else if what == "index_version" && is_index && b.len() > 72 { b[72] = b[72].wrapping_add(2); std::fs::write(&p, b).unwrap(); patched = true; }
            }
            if !patched { continue; }
            combos += 1;
            let (c2, e2, p2, w2) = (cfg.clone(), exp.clone(), payloads.clone(), work.clone());
            let res = rt.block_on(async move {
                tokio::spawn(async move {
                    match ks { 8 => open_and_compare::<8>(c2, w2, nkeys, e2, p2, false).await, 16 => open_and_compare::<16>(c2, w2, nkeys, e2, p2, false).await, 32 => open_and_compare::<32>(c2, w2, nkeys, e2, p2, false).await, _ => open_and_compare::<4>(c2, w2, nkeys, e2, p2, false).await }
                }).await
            });
            let label = json!({"dir": dir.file_name().unwrap().to_string_lossy(), "patched": what});
            match (what, res) {
                // an unknown blob version must make init fail with a validation error
                ("blob_version", Ok(Err(_))) => {}
                ("blob_version", Ok(Ok(_))) => { failed += 1; println!("MISMATCH {}", json!({"case": label, "mismatches": [{"kind": "version", "expected": "init rejects a blob of another format version", "got": "directory opened"}]})); }
                // an index of another version is not trusted: the answers must still be right (rebuilt from the blob)
                ("index_version", Ok(Ok(mm))) => if !mm.is_empty() { failed += 1; println!("MISMATCH {}", json!({"case": label, "mismatches": mm.iter().take(5).collect::<Vec<_>>()})); },
                ("index_version", Ok(Err(e))) => { failed += 1; println!("MISMATCH {}", json!({"case": label, "mismatches": [{"kind": "open", "expected": "index of another version is rebuilt", "got": e}]})); }
                (_, Err(_)) => { failed += 1; println!("MISMATCH {}", json!({"case": label, "mismatches": [{"kind": "panic", "got": "panic"}]})); reset_probe_after_dead_worker(); }
                _ => {}
            }
        }
    }
    let _ = std::fs::remove_dir_all(&root);
    println!("RESULT {}", json!({"directories": dirs.len(), "opened": opened, "combinations": combos, "failed": failed, "sample": sample}));
}
