//! C09: shapes of PearlIndex replayed through the real storage with long keys.
//!
//! stdin : TLC output lines `<<"SHAPE", "json">>`
//! args  : --ks 1000 [--bloom small]
//! For every shape: write all versions (ties, markers as the shape says), ask every present and
//! absent key with the index in memory, then with the index dumped to disk, then after a
//! restart (index loaded back); all answers must equal the expected lists computed by TLC.
//! The layout of the real index file is compared with the model's layout (reported as
//! `drift`, not as a mismatch).

use bytes::Bytes;
use pearl::{ArrayKey, BlobRecordTimestamp, ReadResult};
use pearl_verif_harness::drive::*;
use pearl_verif_harness::*;
use serde::Deserialize;
use serde_json::{json, Value};
use std::io::BufRead;

#[derive(Debug, Clone, Deserialize)]
struct LatestJ { t: String, j: u64, ts: u64 }

#[derive(Debug, Clone, Deserialize)]
#[allow(non_snake_case)]
struct LayoutJ { tree: u64, leaves: u64, depth: u64, total: u64, rootKeys: u64 }

#[derive(Debug, Clone, Deserialize)]
#[allow(non_snake_case)]
struct ShapeJ {
    cnt: Vec<u64>,
    pat: String,
    delAt: u64,
    layout: LayoutJ,
    latest: Vec<LatestJ>,
    allwm: Vec<Vec<(u64, u64, u64)>>,
}

fn arg(name: &str) -> Option<String> {
    let a: Vec<String> = std::env::args().collect();
    a.iter().position(|x| x == name).and_then(|i| a.get(i + 1).cloned())
}

fn ts_of(p: &str, j: u64, c: u64) -> u64 {
    match p {
        "asc" => j,
        "desc" => c - j + 1,
        "equal" => 1,
        _ => if j % 2 == 0 { j - 1 } else { j + 1 },
    }
}

fn vid(i: u64, j: u64) -> u64 { i * 1000 + j }

async fn ask<const N: usize>(d: &Driver<N>, sh: &ShapeJ, phase: &str, out: &mut Vec<Value>) {
    let st = d.storage.as_ref().unwrap();
    let n = sh.cnt.len() as u64;
    for probe in 1..=(2 * n + 1) {
        let key = key_bytes::<N>(probe);
        let stored = probe % 2 == 0;
        let i = (probe / 2) as usize;
        // read
        let r = st.read(&key).await;
        let got = match &r {
            Ok(ReadResult::Found(b)) => format!("F:{}", d.payloads.iter().find(|(_, p)| &p[..] == &b[..]).map(|x| *x.0 as i64).unwrap_or(-1)),
            Ok(ReadResult::Deleted(ts)) => format!("D:{}", tsu(*ts)),
            Ok(ReadResult::NotFound) => "N".to_string(),
            Err(e) => format!("err:{e:#}"),
        };
        let want = if stored {
            let l = &sh.latest[i - 1];
            if l.t == "D" { format!("D:{}", l.ts) } else { format!("F:{}", vid(i as u64, l.j)) }
        } else { "N".to_string() };
        if got != want {
            out.push(json!({"phase": phase, "probe": probe, "kind": "read", "expected": want, "got": got}));
        }
        // contains
        let c = st.contains(&key).await;
        let gotc = match &c {
            Ok(ReadResult::Found(ts)) => format!("F:{}", tsu(*ts)),
            Ok(ReadResult::Deleted(ts)) => format!("D:{}", tsu(*ts)),
            Ok(ReadResult::NotFound) => "N".to_string(),
            Err(e) => format!("err:{e:#}"),
        };
        let wantc = if stored { let l = &sh.latest[i - 1]; format!("{}:{}", l.t, l.ts) } else { "N".to_string() };
        if gotc != wantc {
            out.push(json!({"phase": phase, "probe": probe, "kind": "contains", "expected": wantc, "got": gotc}));
        }
        // all versions with the marker
        match st.read_all_with_deletion_marker(&key).await {
            Ok(entries) => {
                let mut got = Vec::new();
                for e in entries {
                    let ts = tsu(e.timestamp());
                    let del = e.is_deleted() as u64;
                    let v = if del == 1 { 0 } else {
                        match e.load().await {
                            Ok(rec) => { let b = rec.into_data(); d.payloads.iter().find(|(_, p)| &p[..] == &b[..]).map(|x| *x.0).unwrap_or(u64::MAX) }
                            Err(_) => u64::MAX - 1,
                        }
                    };
                    got.push((ts, del, v));
                }
                let want: Vec<(u64, u64, u64)> = if stored {
                    sh.allwm[i - 1].iter().map(|t| (t.0, t.1, if t.1 == 1 { 0 } else { vid(i as u64, t.2) })).collect()
                } else { vec![] };
                if got != want {
                    out.push(json!({"phase": phase, "probe": probe, "kind": "all_wm", "expected": want, "got": got}));
                }
            }
            Err(e) => out.push(json!({"phase": phase, "probe": probe, "kind": "all_wm", "expected": "ok", "got": format!("err:{e:#}")})),
        }
    }
    let total: u64 = sh.cnt.iter().sum();
    let rc = st.records_count().await as u64;
    if rc != total {
        out.push(json!({"phase": phase, "probe": 0, "kind": "records_count", "expected": total, "got": rc}));
    }
}

async fn run_shape<const N: usize>(cfg: HCfg, sh: ShapeJ, dir: std::path::PathBuf) -> Result<(Vec<Value>, Option<Value>), String> {
    let _ = std::fs::remove_dir_all(&dir);
    std::fs::create_dir_all(&dir).map_err(|e| e.to_string())?;
    let n = sh.cnt.len() as u64;
    let mut d = Driver::<N>::new(cfg, dir.clone(), n);
    d.open(false).await?;
    // write round-robin over the keys so that insertion order is not key order
    let maxc = sh.cnt.iter().cloned().max().unwrap_or(0);
    for j in 1..=maxc {
        for i in (1..=n).rev() {
            let c = sh.cnt[(i - 1) as usize];
            if j > c { continue; }
            let key = key_bytes::<N>(2 * i);
            let ts = BlobRecordTimestamp::new(ts_of(&sh.pat, j, c));
            let st = d.storage.as_ref().unwrap();
            if sh.delAt != 0 && j == sh.delAt {
                st.delete(&key, ts, false).await.map_err(|e| format!("delete: {e:#}"))?;
            } else {
                let data = payload(vid(i, j), 10 + (j % 5) as usize);
                d.payloads.insert(vid(i, j), data.clone());
                st.write(&key, Bytes::from(data), ts).await.map_err(|e| format!("write: {e:#}"))?;
            }
        }
    }
    d.settle().await?;
    let mut out = Vec::new();
    ask(&d, &sh, "memory", &mut out).await;
    // dump: close the active blob and wait for the background dump
    d.storage.as_ref().unwrap().try_close_active_blob().await.map_err(|e| format!("close_active: {e:#}"))?;
    wait_quiescent(true, QUIESCE_DEADLINE).await?;
    if !index_path(&dir, 0).exists() {
        return Err("index file was not produced by the dump".into());
    }
    ask(&d, &sh, "disk", &mut out).await;
    // layout of the real file vs the model
    let mut drift = None;
    if let Ok(buf) = std::fs::read(index_path(&dir, 0)) {
        if buf.len() >= INDEX_HEADER_SIZE + 16 {
            let records = u64::from_le_bytes(buf[8..16].try_into().unwrap());
            let rhs = u64::from_le_bytes(buf[16..24].try_into().unwrap());
            let meta = u64::from_le_bytes(buf[24..32].try_into().unwrap()) as usize;
            let tm = INDEX_HEADER_SIZE + meta;
            if buf.len() >= tm + 16 {
                let leaves_off = u64::from_le_bytes(buf[tm..tm + 8].try_into().unwrap());
                let tree_off = u64::from_le_bytes(buf[tm + 8..tm + 16].try_into().unwrap());
                let tree = leaves_off - tree_off;
                let root_keys = if tree > 0 { u64::from_le_bytes(buf[tree_off as usize..tree_off as usize + 8].try_into().unwrap()) } else { 0 };
                let real = json!({"tree": tree, "total": records, "rootKeys": root_keys, "rh": rhs, "file": buf.len() as u64, "leaves_end": leaves_off + records * rhs});
                if tree != sh.layout.tree || records != sh.layout.total || root_keys != sh.layout.rootKeys || rhs != 57 + N as u64 {
                    drift = Some(json!({"model": {"tree": sh.layout.tree, "total": sh.layout.total, "rootKeys": sh.layout.rootKeys, "leaves": sh.layout.leaves, "depth": sh.layout.depth}, "real": real}));
                }
            }
        }
    }
    // restart: the blob becomes active again and its index is loaded back from the file
    d.shutdown(true).await?;
    d.open(false).await?;
    ask(&d, &sh, "reloaded", &mut out).await;
    // lazy restart: index stays on disk, read through a fresh BPTreeFileIndex::from_file
    d.shutdown(true).await?;
    d.open(true).await?;
    ask(&d, &sh, "disk-reopened", &mut out).await;
    let _ = d.shutdown(true).await;
    let _ = std::fs::remove_dir_all(&dir);
    Ok((out, drift))
}

fn main() {
    let ks: usize = arg("--ks").and_then(|s| s.parse().ok()).unwrap_or(1000);
    let mut cfg = HCfg::default();
    cfg.ks = ks;
    cfg.bloom = arg("--bloom").unwrap_or("small".into());
    cfg.rt = arg("--rt").unwrap_or("mt".into());
    let root = scratch_root().join(format!("shapes-{}", std::process::id()));
    let rt = build_runtime(&cfg.rt);
    let stdin = std::io::stdin();
    let (mut n, mut failed, mut drifts, mut probes) = (0u64, 0u64, 0u64, 0u64);
    let mut sample = None;
    let mut depths = std::collections::BTreeMap::new();
    for line in stdin.lock().lines() {
        let line = match line { Ok(l) => l, Err(_) => break };
        let text = match tlc_line_payload(&line, "SHAPE") { Some(t) => t, None => continue };
        let sh: ShapeJ = match serde_json::from_str(&text) { Ok(s) => s, Err(e) => { eprintln!("bad shape: {e}"); std::process::exit(2) } };
        n += 1;
        probes += (2 * sh.cnt.len() as u64 + 1) * 4;
        *depths.entry(sh.layout.depth).or_insert(0u64) += 1;
        if sample.is_none() { sample = Some(json!({"cnt": sh.cnt, "pat": sh.pat, "delAt": sh.delAt})); }
        let dir = root.join(format!("s{}", n));
        let cfg2 = cfg.clone();
        let sh2 = sh.clone();
        let res = rt.block_on(async move {
            tokio::spawn(async move {
                match cfg2.ks {
                    1000 => run_shape::<1000>(cfg2, sh2, dir).await,
                    1300 => run_shape::<1300>(cfg2, sh2, dir).await,
                    2000 => run_shape::<2000>(cfg2, sh2, dir).await,
                    500 => run_shape::<500>(cfg2, sh2, dir).await,
                    // the three classes of the fan-out division (spec: MaxAmount): remainder just below a
                    // whole entry, zero, and below one pointer
                    807 => run_shape::<807>(cfg2, sh2, dir).await,
                    808 => run_shape::<808>(cfg2, sh2, dir).await,
                    809 => run_shape::<809>(cfg2, sh2, dir).await,
                    _ => run_shape::<4>(cfg2, sh2, dir).await,
                }
            }).await
        });
        let shape_json = json!({"cnt": sh.cnt, "pat": sh.pat, "delAt": sh.delAt, "ks": ks});
        match res {
            Ok(Ok((mm, drift))) => {
                if let Some(dr) = drift { drifts += 1; if drifts <= 3 { println!("DRIFT {}", json!({"shape": shape_json, "drift": dr})); } }
                if !mm.is_empty() {
                    failed += 1;
                    println!("MISMATCH {}", json!({"shape": shape_json, "mismatches": mm.iter().take(6).collect::<Vec<_>>()}));
                }
            }
            Ok(Err(e)) => { failed += 1; println!("MISMATCH {}", json!({"shape": shape_json, "mismatches": [{"kind": "error", "got": e}]})); }
            Err(j) => {
                failed += 1;
                let msg = if j.is_panic() { let p = j.into_panic(); p.downcast_ref::<String>().cloned().or_else(|| p.downcast_ref::<&str>().map(|s| s.to_string())).unwrap_or("panic".into()) } else { "cancelled".into() };
                println!("MISMATCH {}", json!({"shape": shape_json, "mismatches": [{"kind": "panic", "got": msg}]}));
                reset_probe_after_dead_worker();
            }
        }
        if failed >= 20 { break; }
    }
    let _ = std::fs::remove_dir_all(&root);
    println!("RESULT {}", json!({"shapes": n, "failed": failed, "drifts": drifts, "probes": probes, "sample": sample, "depths": depths}));
}
