//! C06: crash images built from recorded executions, recovered by the real `init`.
//!
//! stdin : TLC output (GenStore behaviours; write / close_active / create_active alphabets)
//! args  : --cfg <HCfg json> --nkeys n --out trace.ndjson [--dense]
//! For every behaviour the execution is recorded once with payload capture.  At every step
//! boundary (and, with --dense, after every I/O event) crash images are materialised:
//!   kill   : every completed write is in the files (process killed, OS alive);
//!   power  : per file the durable prefix (writes completed before the last completed sync)
//!            plus a choice for the later writes: none / all / all but a torn last one.
//! The real `init` is run on each image (data validation off and on); what it serves, what it
//! quarantines and whether the quarantined files are restorable by the recovery tool is appended
//! to the recording as `crash` / `recovered` events, which TLC validates against TraceIO.
//! Direct findings (init fails, wrong bytes, a write after recovery lost) are MISMATCH lines.

use bytes::Bytes;
use pearl::{ArrayKey, BlobRecordTimestamp};
use pearl_verif_harness::drive::*;
use pearl_verif_harness::tap::{self, unhex};
use pearl_verif_harness::*;
use serde_json::{json, Value};
use std::collections::{BTreeMap, HashMap};
use std::io::{BufRead, Write};
use std::path::{Path, PathBuf};

const N: usize = 8;

fn arg(name: &str) -> Option<String> {
    let a: Vec<String> = std::env::args().collect();
    a.iter().position(|x| x == name).and_then(|i| a.get(i + 1).cloned())
}

#[derive(Clone, Debug)]
struct W { off: u64, data: Vec<u8>, begin: usize, done: Option<usize>, positional: bool }

#[derive(Clone, Debug, Default)]
struct FileLog { kind: String, id: i64, created: Option<usize>, writes: Vec<W>, syncs: Vec<(usize, Option<usize>)> }

/// per-file logs of the events[..upto]
fn file_logs(events: &[Value], upto: usize) -> BTreeMap<String, FileLog> {
    let mut m: BTreeMap<String, FileLog> = BTreeMap::new();
    for (i, e) in events.iter().enumerate().take(upto) {
        let ev = e["ev"].as_str().unwrap_or("");
        let f = e["f"].as_str().unwrap_or("").to_string();
        if f.is_empty() || !(f.starts_with('b') || f.starts_with('i')) { continue; }
        match ev {
            "create" => { m.insert(f, FileLog { kind: e["k"].as_str().unwrap_or("").into(), id: e["id"].as_i64().unwrap_or(-1), created: Some(i), ..Default::default() }); }
            "truncate" => { if let Some(l) = m.get_mut(&f) { l.writes.clear(); l.syncs.clear(); } }
            "write" | "write_at" => {
                if let Some(l) = m.get_mut(&f) {
                    l.writes.push(W { off: e["off"].as_u64().unwrap_or(0), data: unhex(e["data"].as_str().unwrap_or("")), begin: i, done: None, positional: ev == "write_at" });
                }
            }
            "write_done" | "write_at_done" => {
                if let Some(l) = m.get_mut(&f) {
                    let off = e["off"].as_u64().unwrap_or(0);
                    if let Some(w) = l.writes.iter_mut().rev().find(|w| w.off == off && w.done.is_none()) { w.done = Some(i); }
                }
            }
            "sync" => { if let Some(l) = m.get_mut(&f) { l.syncs.push((i, None)); } }
            "sync_end" => { if let Some(l) = m.get_mut(&f) { if let Some(s) = l.syncs.iter_mut().rev().find(|s| s.1.is_none()) { s.1 = Some(i); } } }
            "remove" => { m.remove(&f); }
            _ => {}
        }
    }
    m
}

/// number of leading writes of the file that are durable: completed before the call of a sync that completed
fn durable_writes(l: &FileLog) -> usize {
    let last_sync_call = l.syncs.iter().filter(|s| s.1.is_some()).map(|s| s.0).max();
    match last_sync_call {
        None => 0,
        Some(sc) => l.writes.iter().take_while(|w| w.done.map(|d| d < sc).unwrap_or(false)).count(),
    }
}

fn build(l: &FileLog, full: usize, torn: Option<usize>) -> Vec<u8> {
    let mut buf: Vec<u8> = Vec::new();
    let apply = |buf: &mut Vec<u8>, w: &W, n: usize| {
        let end = w.off as usize + n;
        if buf.len() < end { buf.resize(end, 0); }
        buf[w.off as usize..end].copy_from_slice(&w.data[..n]);
    };
    for w in l.writes.iter().take(full) { apply(&mut buf, w, w.data.len()); }
    if let (Some(n), Some(w)) = (torn, l.writes.get(full)) { apply(&mut buf, w, n.min(w.data.len())); }
    buf
}

fn file_name(l_name: &str) -> String {
    let id = &l_name[1..];
    if l_name.starts_with('b') { format!("{}.{}.blob", PREFIX, id) } else { format!("{}.{}.index", PREFIX, id) }
}

struct Image { label: String, kind: &'static str, files: Vec<(String, Vec<u8>, u64)> }   // (log name, content, cut)

fn images(logs: &BTreeMap<String, FileLog>, dense: bool) -> Vec<Image> {
    let mut out = Vec::new();
    let completed = |l: &FileLog| l.writes.iter().take_while(|w| w.done.is_some()).count();
    // kill: all completed writes
    out.push(Image { label: "kill".into(), kind: "kill", files: logs.iter().map(|(n, l)| { let b = build(l, completed(l), None); let c = b.len() as u64; (n.clone(), b, c) }).collect() });
    // power: durable only
    out.push(Image { label: "power:durable-only".into(), kind: "power", files: logs.iter().map(|(n, l)| { let b = build(l, durable_writes(l), None); let c = b.len() as u64; (n.clone(), b, c) }).collect() });
    // power: one file keeps everything, the others only what is durable; and torn last write of one file
    for (name, l) in logs.iter() {
        let d = durable_writes(l);
        let c = completed(l);
        if c > d {
            out.push(Image { label: format!("power:{}-complete-others-durable", name), kind: "power",
                files: logs.iter().map(|(n, x)| { let b = if n == name { build(x, c, None) } else { build(x, durable_writes(x), None) }; let cu = b.len() as u64; (n.clone(), b, cu) }).collect() });
            // torn: the first non-durable write cut at several lengths, and the last one
            for widx in [d, c - 1] {
                let wl = l.writes[widx].data.len();
                if l.writes[widx].positional { continue; }
                let cuts: Vec<usize> = if dense { (1..wl).collect() } else { vec![1, wl / 2, wl.saturating_sub(1)].into_iter().filter(|x| *x > 0 && *x < wl).collect() };
                for cut in cuts {
                    out.push(Image { label: format!("power:{}-write{}-torn@{}", name, widx, cut), kind: "power",
                        files: logs.iter().map(|(n, x)| { let b = if n == name { build(x, widx, Some(cut)) } else { build(x, completed(x), None) }; let cu = b.len() as u64; (n.clone(), b, cu) }).collect() });
                }
            }
        }
    }
    out
}

#[derive(Default)]
struct Outcome { init_ok: bool, init_err: String, served: Vec<(u64, u64, bool)>, corrupted: u64, quarantined: Vec<u64>, restored: Vec<(u64, u64)>, after_ok: bool, wrong_bytes: Vec<String> }

/// (blob, off) of every acknowledged record with its key / value id, from the append events
fn acked_records(events: &[Value], upto: usize, vids: &HashMap<(i64, u64), u64>) -> Vec<(i64, u64, u64, u64)> {
    let mut v = Vec::new();
    for e in events.iter().take(upto) {
        if e["ev"] == "append" {
            let b = e["id"].as_i64().unwrap_or(-1);
            let off = e["off"].as_u64().unwrap_or(0);
            let key = e["key"].as_u64().unwrap_or(0) / 2;
            if let Some(vid) = vids.get(&(b, off)) { v.push((b, off, key, *vid)); }
        }
    }
    v
}

async fn recover(dir: &Path, validate: bool, ignore: bool, nkeys: u64, payloads: &HashMap<u64, Vec<u8>>, acked: &[(i64, u64, u64, u64)]) -> Outcome {
    let mut o = Outcome::default();
    let mut cfg = HCfg::default();
    cfg.ks = N;
    cfg.validate_regen = validate;
    cfg.ignore_corrupted = ignore;
    let mut d = Driver::<N>::new(cfg.clone(), dir.to_path_buf(), nkeys);
    match d.open(false).await {
        Ok(()) => o.init_ok = true,
        Err(e) => { o.init_err = e; return o; }
    }
    {
        let st = d.storage.as_ref().unwrap();
        o.corrupted = st.corrupted_blobs_count() as u64;
        // which acknowledged records are served with their bytes (all versions of a key are listed)
        for k in 1..=nkeys {
            let key = model_key::<N>(k);
            match st.read_all_with_deletion_marker(&key).await {
                Ok(entries) => {
                    for e in entries {
                        match e.load().await {
                            Ok(rec) => {
                                let data = rec.into_data();
                                let vid = payloads.iter().find(|(_, p)| p[..] == data[..]).map(|x| *x.0);
                                match vid {
                                    Some(v) => { if let Some(a) = acked.iter().find(|a| a.3 == v) { o.served.push((a.0 as u64, a.1, true)); } else { o.served.push((u64::MAX, v, true)); } }
                                    None => o.wrong_bytes.push(format!("key {k}: {} bytes that were never written", data.len())),
                                }
                            }
                            Err(_) => {}     // listed but unreadable: not served
                        }
                    }
                }
                Err(e) => o.wrong_bytes.push(format!("key {k}: read_all failed: {e:#}")),
            }
        }
    }
    // quarantined files (with ignore_corrupted: unreadable blobs left in place and not served) and what
    // the recovery tool gets out of them
    let mut aside: Vec<(u64, bool, PathBuf)> = list_files(&dir.join(CORRUPTED_DIR));
    if ignore {
        let served_blobs: std::collections::HashSet<u64> = o.served.iter().map(|s| s.0).collect();
        let acked_blobs: std::collections::HashSet<u64> = acked.iter().map(|a| a.0 as u64).collect();
        for (id, is_index, p) in list_files(dir) {
            // a blob with acknowledged records none of which is served was ignored by init
            if !is_index && acked_blobs.contains(&id) && !served_blobs.contains(&id) { aside.push((id, false, p)); }
        }
    }
    for (id, is_index, p) in aside {
        if is_index { continue; }
        o.quarantined.push(id);
        let out = dir.join(format!("restored-{}.blob", id));
        if pearl::tools::recovery_blob(&p, &out, 1, true).is_ok() {
            if let Ok(buf) = std::fs::read(&out) {
                for a in acked.iter().filter(|a| a.0 as u64 == id) {
                    if let Some(pl) = payloads.get(&a.3) {
                        // the record's data bytes appear in the restored blob
                        if pl.is_empty() || buf.windows(pl.len()).any(|w| w == &pl[..]) { o.restored.push((id, a.1)); }
                    }
                }
            }
            let _ = std::fs::remove_file(&out);
        }
    }
    // the storage is usable: a write made after recovery survives a further restart
    let key = model_key::<N>(nkeys + 1);
    let data = payload(777_777, 21);
    let st = d.storage.as_ref().unwrap();
    let w = st.write(&key, Bytes::from(data.clone()), BlobRecordTimestamp::new(9)).await;
    let closed = d.shutdown(true).await;
    if w.is_ok() && closed.is_ok() {
        let mut d2 = Driver::<N>::new(cfg.clone(), dir.to_path_buf(), nkeys);
        if d2.open(false).await.is_ok() {
            let mut ok = false;
            if let Ok(pearl::ReadResult::Found(b)) = d2.storage.as_ref().unwrap().read(&key).await { ok = b[..] == data[..]; }
            // ... and a second one, this time after another crash: the storage goes away without close
            // and the index files are lost, so the next start scans the blobs again
            let data2 = payload(888_888, 25);
            let key2 = model_key::<N>(nkeys + 2);
            let w2 = d2.storage.as_ref().unwrap().write(&key2, Bytes::from(data2.clone()), BlobRecordTimestamp::new(9)).await;
            let _ = d2.shutdown(false).await;
            for (_, is_index, p) in list_files(dir) { if is_index { let _ = std::fs::remove_file(p); } }
            let mut d3 = Driver::<N>::new(cfg, dir.to_path_buf(), nkeys);
            if w2.is_ok() && d3.open(false).await.is_ok() {
                let st3 = d3.storage.as_ref().unwrap();
                let a = matches!(st3.read(&key).await, Ok(pearl::ReadResult::Found(ref b)) if b[..] == data[..]);
                let b2 = matches!(st3.read(&key2).await, Ok(pearl::ReadResult::Found(ref b)) if b[..] == data2[..]);
                o.after_ok = ok && a && b2;
                let _ = d3.shutdown(true).await;
            }
        }
    }
    o
}

/// child of the real-kill mode: writes for ever, appending one line per acknowledged record
fn kill_child(dir: PathBuf, acklog: PathBuf, seed: u64, rtname: &str) {
    use rand::{rngs::StdRng, Rng, SeedableRng};
    let rt = build_runtime(rtname);
    rt.block_on(async move {
        let mut cfg = HCfg::default();
        cfg.ks = N;
        cfg.seed = seed;
        let mut d = Driver::<N>::new(cfg, dir, 6);
        if d.open(false).await.is_err() { std::process::exit(3); }
        let mut log = std::fs::OpenOptions::new().create(true).append(true).open(&acklog).expect("acklog");
        let mut rng = StdRng::seed_from_u64(seed);
        let mut vid = seed * 1_000_000;
        loop {
            vid += 1;
            let k = rng.gen_range(1..=6u64);
            let ts = rng.gen_range(1..=9u64);
            let len = if rng.gen_range(0..10) == 0 { rng.gen_range(4000..9000) } else { rng.gen_range(12..200) };
            let st = d.storage.as_ref().unwrap();
            if st.write(&model_key::<N>(k), Bytes::from(payload(vid, len)), BlobRecordTimestamp::new(ts)).await.is_ok() {
                let _ = log.write_all(format!("{} {} {} {}\n", vid, k, ts, len).as_bytes());
            }
            if rng.gen_range(0..60) == 0 { let _ = st.try_close_active_blob().await; }
        }
    });
}

/// parent of the real-kill mode
fn kill_main(kills: u64, rtname: String, seed0: u64) {
    use rand::{rngs::StdRng, Rng, SeedableRng};
    let root = scratch_root().join(format!("kill-{}", std::process::id()));
    let rt = build_runtime("mt");
    let exe = std::env::current_exe().expect("exe");
    let mut rng = StdRng::seed_from_u64(seed0);
    let (mut done, mut failed, mut acked_total, mut quarantines, mut restored_total) = (0u64, 0u64, 0u64, 0u64, 0u64);
    for i in 0..kills {
        let dir = root.join(format!("k{}", i));
        let _ = std::fs::remove_dir_all(&dir);
        std::fs::create_dir_all(&dir).unwrap();
        let acklog = root.join(format!("ack{}.log", i));
        let _ = std::fs::remove_file(&acklog);
        // two sessions per directory: the second child appends to reopened blobs
        let mut acked: Vec<(u64, u64, u64, usize)> = Vec::new();
        for session in 0..2u64 {
            let mut child = std::process::Command::new(&exe)
                .args(["--kill-child", dir.to_str().unwrap(), acklog.to_str().unwrap(), &format!("{}", seed0 * 1000 + i * 2 + session + 1), &rtname])
                .stdout(std::process::Stdio::null()).stderr(std::process::Stdio::null()).spawn().expect("child");
            std::thread::sleep(std::time::Duration::from_millis(rng.gen_range(15..160)));
            unsafe { libc::kill(child.id() as i32, libc::SIGKILL); }
            let _ = child.wait();
        }
        let text = std::fs::read_to_string(&acklog).unwrap_or_default();
        for line in text.split_inclusive('\n') {
            if !line.ends_with('\n') { continue; }       // the line being written when the child died
            let f: Vec<u64> = line.split_whitespace().filter_map(|x| x.parse().ok()).collect();
            if f.len() == 4 { acked.push((f[0], f[1], f[2], f[3] as usize)); }
        }
        acked_total += acked.len() as u64;
        let (d2, ak) = (dir.clone(), acked.clone());
        let res = rt.block_on(async move {
            tokio::spawn(async move {
                let mut problems: Vec<String> = Vec::new();
                let mut cfg = HCfg::default();
                cfg.ks = N;
                let mut d = Driver::<N>::new(cfg.clone(), d2.clone(), 6);
                if let Err(e) = d.open(false).await { return (vec![format!("init failed: {e}")], 0u64, 0u64); }
                let st = d.storage.as_ref().unwrap();
                let mut served: std::collections::HashSet<u64> = Default::default();
                for k in 1..=6u64 {
                    match st.read_all_with_deletion_marker(&model_key::<N>(k)).await {
                        Ok(es) => for e in es {
                            if let Ok(rec) = e.load().await {
                                let b = rec.into_data();
                                match ak.iter().find(|a| a.1 == k && payload(a.0, a.3)[..] == b[..]) {
                                    Some(a) => { served.insert(a.0); }
                                    None => {
                                        // a record that was written but not yet acknowledged when the child died is fine;
                                        // bytes that are no payload at all are not
                                        let mut idb = [0u8; 8];
                                        if b.len() >= 8 { for j in 0..8 { idb[j] = b[j] ^ 0x5a; } }
                                        let v = u64::from_le_bytes(idb);
                                        if b.len() < 8 || payload(v, b.len())[..] != b[..] { problems.push(format!("key {k}: served {} bytes that no write produced", b.len())); }
                                    }
                                }
                            }
                        },
                        Err(e) => problems.push(format!("read_all key {k}: {e:#}")),
                    }
                }
                let mut restored: std::collections::HashSet<u64> = Default::default();
                let mut quar = 0u64;
                for (id, is_index, p) in list_files(&d2.join(CORRUPTED_DIR)) {
                    if is_index { continue; }
                    quar += 1;
                    let out = d2.join(format!("restored-{}.blob", id));
                    if pearl::tools::recovery_blob(&p, &out, 1, true).is_ok() {
                        if let Ok(buf) = std::fs::read(&out) {
                            for a in ak.iter() { if !served.contains(&a.0) { let pl = payload(a.0, a.3); if buf.windows(pl.len()).any(|w| w == &pl[..]) { restored.insert(a.0); } } }
                        }
                        let _ = std::fs::remove_file(&out);
                    }
                }
                let lost: Vec<u64> = ak.iter().map(|a| a.0).filter(|v| !served.contains(v) && !restored.contains(v)).collect();
                if !lost.is_empty() { problems.push(format!("{} acknowledged record(s) neither served nor restorable from the quarantined file (first value id {})", lost.len(), lost[0])); }
                // usable afterwards
                let key = model_key::<N>(7);
                let data = payload(424242, 30);
                let w = st.write(&key, Bytes::from(data.clone()), BlobRecordTimestamp::new(5)).await;
                let c = d.shutdown(true).await;
                let mut ok = false;
                if w.is_ok() && c.is_ok() {
                    let mut d3 = Driver::<N>::new(cfg, d2.clone(), 6);
                    if d3.open(false).await.is_ok() {
                        if let Ok(pearl::ReadResult::Found(b)) = d3.storage.as_ref().unwrap().read(&key).await { ok = b[..] == data[..]; }
                        let _ = d3.shutdown(true).await;
                    }
                }
                if !ok { problems.push("a record written after recovery was not served after the next restart".into()); }
                (problems, quar, restored.len() as u64)
            }).await
        });
        done += 1;
        match res {
            Ok((problems, q, r)) => {
                quarantines += q; restored_total += r;
                if !problems.is_empty() { failed += 1; println!("MISMATCH {}", json!({"case": {"kill": i, "acked": acked.len(), "runtime": rtname}, "mismatches": problems.iter().map(|p| json!({"kind": "kill", "got": p})).collect::<Vec<_>>()})); }
            }
            Err(_) => { failed += 1; println!("MISMATCH {}", json!({"case": {"kill": i}, "mismatches": [{"kind": "panic", "got": "panic during recovery after a kill"}]})); reset_probe_after_dead_worker(); }
        }
        let _ = std::fs::remove_dir_all(&dir);
    }
    let _ = std::fs::remove_dir_all(&root);
    println!("RESULT {}", json!({"kills": done, "failed": failed, "acked_records": acked_total, "quarantined_blobs": quarantines, "restored_records": restored_total}));
}

fn main() {
    let argv: Vec<String> = std::env::args().collect();
    if argv.len() >= 6 && argv[1] == "--kill-child" {
        return kill_child(PathBuf::from(&argv[2]), PathBuf::from(&argv[3]), argv[4].parse().unwrap_or(1), &argv[5]);
    }
    if let Some(n) = arg("--kills") {
        return kill_main(n.parse().unwrap_or(10), arg("--rt").unwrap_or("mt".into()), arg("--seed").and_then(|s| s.parse().ok()).unwrap_or(1));
    }
    let cfg: HCfg = { let mut c: HCfg = serde_json::from_str(&arg("--cfg").unwrap_or("{}".into())).expect("cfg"); c.ks = N; c };
    let nkeys: u64 = arg("--nkeys").and_then(|s| s.parse().ok()).unwrap_or(2);
    let out_path = arg("--out").expect("--out");
    let dense = std::env::args().any(|a| a == "--dense");
    let root = scratch_root().join(format!("crash-{}", std::process::id()));
    let rt = build_runtime(&cfg.rt);
    let rec = tap::Recorder::new();
    rec.capture_payload.store(true, std::sync::atomic::Ordering::SeqCst);
    rec.install();
    let mut w = std::io::BufWriter::new(std::fs::File::create(&out_path).expect("out"));
    let stdin = std::io::stdin();
    let (mut behaviours, mut imgs, mut failed) = (0u64, 0u64, 0u64);
    let mut by_kind: BTreeMap<String, u64> = BTreeMap::new();
    let mut sample = None;
    for line in stdin.lock().lines() {
        let line = match line { Ok(l) => l, Err(_) => break };
        let text = match tlc_line_payload(&line, "BEHAVIOUR") { Some(t) => t, None => continue };
        let beh: BehaviourJ = match serde_json::from_str(&text) { Ok(b) => b, Err(_) => continue };
        behaviours += 1;
        // 1. record the execution once
        let dir = root.join("run");
        let (cfg2, beh2, rec2, dir2) = (cfg.clone(), beh.clone(), rec.clone(), dir.clone());
        let run: Result<(Vec<Value>, Vec<usize>, HashMap<u64, Vec<u8>>, HashMap<(i64, u64), u64>), String> = rt.block_on(async move {
            let _ = std::fs::remove_dir_all(&dir2);
            std::fs::create_dir_all(&dir2).map_err(|e| e.to_string())?;
            let mut d = Driver::<N>::new(cfg2, dir2, nkeys);
            d.rec = Some(rec2.clone());
            rec2.driver_event("reset", "", -1, true, 1 << 30);
            d.open(false).await?;
            let mut events: Vec<Value> = rec2.drain();
            let mut points = vec![events.len()];
            let mut vid = 0u64;
            let mut vids: HashMap<(i64, u64), u64> = HashMap::new();
            for st in beh2.steps.iter() {
                if st.act.a == "write" || st.act.a == "delete" { vid += 1; }
                d.exec(&st.act, vid).await?;
                let new = rec2.drain();
                for e in new.iter() { if e["ev"] == "append" { vids.insert((e["id"].as_i64().unwrap_or(-1), e["off"].as_u64().unwrap_or(0)), vid); } }
                events.extend(new);
                points.push(events.len());
            }
            let payloads = d.payloads.clone();
            rec2.enabled.store(false, std::sync::atomic::Ordering::SeqCst);
            let _ = d.shutdown(true).await;
            rec2.enabled.store(true, std::sync::atomic::Ordering::SeqCst);
            let _ = rec2.drain();
            Ok((events, points, payloads, vids))
        });
        let (events, points, payloads, vids) = match run { Ok(x) => x, Err(e) => { eprintln!("recording failed: {e}"); std::process::exit(2) } };
        let cps: Vec<usize> = if dense { (points[0]..=events.len()).collect() } else { points.clone() };
        // the recording is written once; `crash` / `recovered` events are inserted at their crash point (they do not
        // change the state of the specification, so the recording simply goes on behind them)
        let mut written_upto: Option<usize> = None;
        for cp in cps {
            let logs = file_logs(&events, cp);
            let acked = acked_records(&events, cp, &vids);
            for img in images(&logs, dense) {
                for (validate, ignore) in [(false, false), (true, false), (false, true)] {
                    imgs += 1;
                    *by_kind.entry(img.label.split('@').next().unwrap_or("").split("-write").next().unwrap_or("").to_string()).or_default() += 1;
                    let work = root.join("img");
                    let _ = std::fs::remove_dir_all(&work);
                    std::fs::create_dir_all(&work).unwrap();
                    for (name, content, _) in img.files.iter() { std::fs::write(work.join(file_name(name)), content).unwrap(); }
                    if sample.is_none() { sample = Some(json!({"behaviour": beh.steps.iter().map(|s| s.act.a.clone()).collect::<Vec<_>>(), "crash_after_event": cp, "image": img.label})); }
                    let (w2, pl2, ak2) = (work.clone(), payloads.clone(), acked.clone());
                    rec.enabled.store(false, std::sync::atomic::Ordering::SeqCst);
                    let res = rt.block_on(async move { tokio::spawn(async move { recover(&w2, validate, ignore, nkeys, &pl2, &ak2).await }).await });
                    rec.enabled.store(true, std::sync::atomic::Ordering::SeqCst);
                    let _ = rec.drain();
                    let sig: Vec<String> = beh.steps.iter().map(|s| s.act.a.clone()).collect();
                    let case = json!({"behaviour": sig, "crash_after_event": cp, "image": img.label, "validate": validate, "ignore_corrupted": ignore});
                    match res {
                        Ok(o) => {
                            let mut direct = Vec::new();
                            if !o.init_ok { direct.push(json!({"kind": "init_failed", "got": o.init_err})); }
                            for wb in o.wrong_bytes.iter() { direct.push(json!({"kind": "wrong_bytes", "got": wb})); }
                            if o.init_ok && !o.after_ok { direct.push(json!({"kind": "write_after_recovery_lost", "got": "a record written after recovery was not served after the next restart"})); }
                            if !direct.is_empty() { failed += 1; println!("MISMATCH {}", json!({"case": case, "mismatches": direct})); continue; }
                            // the recording up to the crash + crash + recovered, for TLC
                            let from = match written_upto {
                                None => { let _ = writeln!(w, "{}", json!({"ev": "reset", "a": 1 << 30, "ok": 1, "seq": 0, "f": "", "f2": "", "k": "", "id": -1, "loc": "", "off": 0, "len": 0, "op": ""})); 0 }
                                Some(u) => u,
                            };
                            for e in events.iter().take(cp).skip(from) { if e["ev"] != "reset" { let mut e2 = e.clone(); if let Some(m) = e2.as_object_mut() { m.remove("data"); } let _ = writeln!(w, "{}", e2); } }
                            written_upto = Some(cp.max(from));
                            let cuts: Vec<Value> = img.files.iter().map(|(n, _, c)| json!([n, c])).collect();
                            let _ = writeln!(w, "{}", json!({"ev": "crash", "op": img.kind, "cuts": cuts, "f": "", "f2": "", "k": "", "id": -1, "loc": "", "off": 0, "len": 0, "a": 0, "ok": 1, "seq": 0}));
                            let acked_j: Vec<Value> = acked.iter().map(|a| json!([a.0, a.1])).collect();
                            let served_j: Vec<Value> = o.served.iter().filter(|s| s.0 != u64::MAX).map(|s| json!([s.0, s.1])).collect();
                            let restored_j: Vec<Value> = o.restored.iter().map(|s| json!([s.0, s.1])).collect();
                            let _ = writeln!(w, "{}", json!({"ev": "recovered", "op": img.kind, "acked": acked_j, "served": served_j, "quar": o.quarantined, "restored": restored_j,
                                "a": o.corrupted, "f": "", "f2": "", "k": "", "id": -1, "loc": "", "off": 0, "len": 0, "ok": 1, "seq": 0, "label": img.label, "validate": validate}));
                        }
                        Err(_) => { failed += 1; println!("MISMATCH {}", json!({"case": case, "mismatches": [{"kind": "panic", "got": "panic during recovery"}]})); reset_probe_after_dead_worker(); }
                    }
                }
            }
        }
    }
    let _ = w.flush();
    let _ = std::fs::remove_dir_all(&root);
    println!("RESULT {}", json!({"behaviours": behaviours, "images": imgs, "failed": failed, "by_kind": by_kind, "sample": sample}));
}
