//! C05 (second half): cases of PearlBytes executed on the real storage: the data bytes of one
//! stored record are altered on disk and the record is read with its index in memory, on disk,
//! or rebuilt at start-up with / without data validation.  stdin: `<<"BYTECASE", json>>` lines.
//! args: [--dense] (every byte of the data region instead of first / middle / last)

use bytes::Bytes;
use pearl::{ArrayKey, BlobRecordTimestamp, ReadResult};
use pearl_verif_harness::drive::*;
use pearl_verif_harness::*;
use serde::Deserialize;
use serde_json::{json, Value};
use std::io::BufRead;
use std::os::unix::fs::FileExt;

const N: usize = 8;

#[derive(Debug, Clone, Deserialize)]
struct CaseJ { index: String, pos: String, nrec: u64, #[serde(default)] size: String, damaged: Vec<String>, same: Vec<String>, other: Vec<String> }

/// the damaged record of the case in progress and the length of its data (size class of the case)
static TARGET: std::sync::atomic::AtomicU64 = std::sync::atomic::AtomicU64::new(0);
static TARGET_LEN: std::sync::atomic::AtomicUsize = std::sync::atomic::AtomicUsize::new(0);

fn data_len(i: u64) -> usize {
    use std::sync::atomic::Ordering::SeqCst;
    if i == TARGET.load(SeqCst) && TARGET_LEN.load(SeqCst) > 0 { return TARGET_LEN.load(SeqCst); }
    match i { 1 => 40, 2 => 5000, _ => 9 }
}
fn meta_class(i: u64) -> u64 { if i == 2 { 1 } else { 0 } }
fn rec_len(i: u64) -> u64 { (57 + N + meta_serialized_size(meta_class(i)) + data_len(i)) as u64 }

async fn outcome(d: &Driver<N>, key_num: u64, want: &[u8]) -> String {
    let st = d.storage.as_ref().unwrap();
    let key = key_bytes::<N>(2 * key_num);
    let r = st.read(&key).await;
    let base = match r {
        Ok(ReadResult::Found(b)) => if &b[..] == want { "served" } else { "WRONG-BYTES" },
        Ok(ReadResult::NotFound) => if st.corrupted_blobs_count() > 0 { "quarantined" } else { "lost" },
        Ok(ReadResult::Deleted(_)) => "lost",
        Err(_) => "error",
    };
    // every other read path must agree: read_with (loads the metadata first), read_all + Entry::load,
    // Entry::load_data, Entry::load_meta followed by Entry::load
    let served_elsewhere = |what: &str, bytes: &[u8]| -> Option<String> {
        if bytes != want { Some(format!("WRONG-BYTES({what})")) } else if base == "error" { Some(format!("served-by-{what}")) } else { None }
    };
    for m in [0u64, 1] {
        if let Ok(ReadResult::Found(b)) = st.read_with(&key, &meta_of(m)).await {
            if let Some(x) = served_elsewhere("read_with", &b) { return x; }
        }
    }
    if let Ok(entries) = st.read_all(&key).await {
        for e in entries {
            if let Ok(d) = e.load_data().await { if let Some(x) = served_elsewhere("load_data", &d) { return x; } }
            if let Ok(rec) = e.load().await { if let Some(x) = served_elsewhere("read_all+load", &rec.into_data()) { return x; } }
        }
    }
    if let Ok(entries) = st.read_all(&key).await {
        for mut e in entries {
            let _ = e.load_meta().await;
            if let Ok(rec) = e.load().await { if let Some(x) = served_elsewhere("load_meta+load", &rec.into_data()) { return x; } }
        }
    }
    base.to_string()
}

fn main() {
    let dense = std::env::args().any(|a| a == "--dense");
    let root = scratch_root().join(format!("bytes-{}", std::process::id()));
    let rt = build_runtime("mt");
    let stdin = std::io::stdin();
    let (mut cases, mut variants, mut failed) = (0u64, 0u64, 0u64);
    let mut sample: Option<Value> = None;
    for line in stdin.lock().lines() {
        let line = match line { Ok(l) => l, Err(_) => break };
        let text = match tlc_line_payload(&line, "BYTECASE") { Some(t) => t, None => continue };
        let c: CaseJ = serde_json::from_str(&text).expect("case");
        cases += 1;
        if sample.is_none() { sample = Some(json!({"index": c.index, "pos": c.pos, "nrec": c.nrec})); }
        let target: u64 = match c.pos.as_str() { "only" | "first" => 1, "middle" => 2, _ => c.nrec };
        {
            use std::sync::atomic::Ordering::SeqCst;
            TARGET.store(target, SeqCst);
            TARGET_LEN.store(match c.size.as_str() {
                "e4k" => 4096 - 57 - N - meta_serialized_size(meta_class(target)),   // the record just fills the single write buffer
                "e80k" => 81_921,                                                   // beyond the in-place I/O threshold
                "big" => 204_800,                                                   // several 64 KiB blocks and a remainder
                _ => 0,
            }, SeqCst);
        }
        let dir = root.join("d");
        let c2 = c.clone();
        let res: Result<Vec<Value>, String> = rt.block_on(async move {
            let c = c2;
            let _ = std::fs::remove_dir_all(&dir);
            std::fs::create_dir_all(&dir).map_err(|e| e.to_string())?;
            let mut cfg = HCfg::default();
            cfg.ks = N;
            cfg.validate_regen = c.index.ends_with("val");
            let mut d = Driver::<N>::new(cfg, dir.clone(), 9);
            d.open(false).await?;
            // blob 0: another blob with one record (key 9)
            let other = payload(900, 33);
            d.storage.as_ref().unwrap().write(&key_bytes::<N>(18), Bytes::from(other.clone()), BlobRecordTimestamp::new(1)).await.map_err(|e| format!("{e:#}"))?;
            d.storage.as_ref().unwrap().try_close_active_blob().await.map_err(|e| format!("{e:#}"))?;
            wait_quiescent(true, QUIESCE_DEADLINE).await?;
            // blob 1: the records of the case
            let mut offs = Vec::new();
            let mut off = 20u64;
            for i in 1..=c.nrec {
                let stg = d.storage.as_ref().unwrap();
                let wr = if meta_class(i) == 0 { stg.write(&key_bytes::<N>(2 * i), Bytes::from(payload(i, data_len(i))), BlobRecordTimestamp::new(5)).await }
                         else { stg.write_with(&key_bytes::<N>(2 * i), Bytes::from(payload(i, data_len(i))), BlobRecordTimestamp::new(5), meta_of(meta_class(i))).await };
                wr.map_err(|e| format!("{e:#}"))?;
                offs.push(off);
                off += rec_len(i);
            }
            if c.index == "disk" || c.index.starts_with("reopen") {
                d.storage.as_ref().unwrap().try_close_active_blob().await.map_err(|e| format!("{e:#}"))?;
                wait_quiescent(true, QUIESCE_DEADLINE).await?;
            }
            let blob1 = blob_path(&dir, 1);
            let flen = std::fs::metadata(&blob1).map(|m| m.len()).unwrap_or(0);
            if flen != off { return Err(format!("layout mismatch: blob is {flen} bytes, expected {off}")); }
            let dstart = offs[(target - 1) as usize] + (57 + N + meta_serialized_size(meta_class(target))) as u64;
            let dlen = data_len(target) as u64;
            // first / middle / last byte, and the bytes around every 64 KiB block boundary and the 4 KiB buffer boundary
            let mut ps: Vec<u64> = if dense && dlen <= 6000 { (0..dlen).collect() } else { vec![0, dlen / 2, dlen - 1] };
            for b in [4096u64, 65_536, 131_072, 196_608] { for p in [b - 1, b] { if p < dlen { ps.push(p); } } }
            if dense && dlen > 6000 { let mut p = 1; while p < dlen { ps.push(p); p = p * 2 + 1; } }
            ps.sort();
            ps.dedup();
            let restart = c.index.starts_with("regen") || c.index.starts_with("reopen");
            // "reopen": the index files written by the first session are kept and are valid
            let keep_index = c.index.starts_with("reopen");
            if restart { d.shutdown(true).await?; }
            let mut mm = Vec::new();
            for p in ps {
                for pat in [vec![0x01u8], vec![0x80], vec![0xff], vec![0xa5, 0x5a, 0xa5, 0x5a]] {
                    let n = pat.len().min((dlen - p) as usize);
                    let f = std::fs::OpenOptions::new().read(true).write(true).open(&blob1).map_err(|e| e.to_string())?;
                    let mut orig = vec![0u8; n];
                    f.read_exact_at(&mut orig, dstart + p).map_err(|e| e.to_string())?;
                    let alt: Vec<u8> = orig.iter().zip(pat.iter()).map(|(a, b)| a ^ b).collect();
                    f.write_all_at(&alt, dstart + p).map_err(|e| e.to_string())?;
                    if restart {
                        // a fresh copy of the directory for every variant: quarantine moves files
                        let work = dir.parent().unwrap().join("w");
                        let _ = std::fs::remove_dir_all(&work);
                        std::fs::create_dir_all(&work).unwrap();
                        for (id, is_index, pth) in list_files(&dir) {
                            if !is_index { std::fs::copy(&pth, blob_path(&work, id)).unwrap(); }
                            else if keep_index { std::fs::copy(&pth, index_path(&work, id)).unwrap(); }
                        }
                        let mut cfg2 = HCfg::default();
                        cfg2.ks = N;
                        cfg2.validate_regen = c.index.ends_with("val");
                        let mut d2 = Driver::<N>::new(cfg2, work.clone(), 9);
                        match d2.open(false).await {
                            Ok(()) => {
                                let got = outcome(&d2, target, &payload(target, data_len(target))).await;
                                if !c.damaged.contains(&got) { mm.push(json!({"what": "damaged record", "byte": p, "pattern": pat, "allowed": c.damaged, "got": got})); }
                                for i in 1..=c.nrec { if i != target {
                                    let g = outcome(&d2, i, &payload(i, data_len(i))).await;
                                    if !c.same.contains(&g) { mm.push(json!({"what": format!("record {i} of the same blob"), "byte": p, "pattern": pat, "allowed": c.same, "got": g})); }
                                } }
                                let g = outcome(&d2, 9, &other).await;
                                if !c.other.contains(&g) { mm.push(json!({"what": "record of another blob", "byte": p, "pattern": pat, "allowed": c.other, "got": g})); }
                                let _ = d2.shutdown(true).await;
                            }
                            Err(e) => mm.push(json!({"what": "init", "byte": p, "pattern": pat, "allowed": "init succeeds", "got": e})),
                        }
                    } else {
                        let got = outcome(&d, target, &payload(target, data_len(target))).await;
                        if !c.damaged.contains(&got) { mm.push(json!({"what": "damaged record", "byte": p, "pattern": pat, "allowed": c.damaged, "got": got})); }
                        for i in 1..=c.nrec { if i != target {
                            let g = outcome(&d, i, &payload(i, data_len(i))).await;
                            if !c.same.contains(&g) { mm.push(json!({"what": format!("record {i} of the same blob"), "byte": p, "pattern": pat, "allowed": c.same, "got": g})); }
                        } }
                        let g = outcome(&d, 9, &other).await;
                        if !c.other.contains(&g) { mm.push(json!({"what": "record of another blob", "byte": p, "pattern": pat, "allowed": c.other, "got": g})); }
                    }
                    f.write_all_at(&orig, dstart + p).map_err(|e| e.to_string())?;
                    mm.truncate(6);
                }
            }
            if !restart { let _ = d.shutdown(true).await; }
            Ok(mm)
        });
        match res {
            Ok(mm) => {
                variants += 1;
                if !mm.is_empty() { failed += 1; println!("MISMATCH {}", json!({"case": {"index": c.index, "pos": c.pos, "nrec": c.nrec, "size": c.size}, "mismatches": mm})); }
            }
            Err(e) => { eprintln!("tool problem: {e}"); std::process::exit(2); }
        }
    }
    let _ = std::fs::remove_dir_all(&root);
    println!("RESULT {}", json!({"cases": cases, "failed": failed, "sample": sample, "variants": variants}));
}
