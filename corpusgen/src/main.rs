//! One-off generator of the C17 corpus.  Built against a scratch checkout of the PINNED pearl
//! (commit 8fcb7aa, no hooks, no fixes): executes TLC-generated behaviours through the public
//! API only, cross-checks every answer of the pinned code with the expectation computed by TLC,
//! closes the storage and keeps the directory together with `expected.json`.
//!
//! usage: corpusgen <out dir> <ks> <bloom: small|off> < behaviours (TLC output)
//! A behaviour whose answers under the pinned code differ from the specification (the pinned tree
//! has known defects) is skipped and reported on stderr.

use bytes::Bytes;
use pearl::{ArrayKey, BlobRecordTimestamp, BloomConfig, Builder, Meta, ReadResult, Storage};
use serde::{Deserialize, Serialize};
use std::collections::BTreeMap;
use std::io::BufRead;
use std::path::{Path, PathBuf};
use std::time::Duration;

#[derive(Debug, Clone, Deserialize, Serialize, PartialEq)]
struct ResJ { t: String, n: i64 }
#[derive(Debug, Clone, Deserialize, Serialize)]
struct ActJ { a: String, #[serde(default)] k: u64, #[serde(default)] ts: u64, #[serde(default)] m: u64, #[serde(default)] f: u64, #[serde(default)] s: String }
#[derive(Debug, Clone, Deserialize, Serialize)]
struct KeyObsJ { r: ResJ, c: ResJ, all: Vec<(u64, u64, u64)>, w: BTreeMap<String, ResJ>, has: bool }
#[derive(Debug, Clone, Deserialize, Serialize)]
struct ObsJ { keys: Vec<KeyObsJ>, counts: serde_json::Value, #[serde(default)] ondisk: Vec<u64>, #[serde(default)] alive: bool }
#[derive(Debug, Clone, Deserialize, Serialize)]
struct StepJ { act: ActJ, ret: ResJ, #[serde(default)] obs: Option<ObsJ> }
#[derive(Debug, Clone, Deserialize, Serialize)]
struct BehaviourJ { steps: Vec<StepJ> }

// ---- the same abstraction functions as harness/src/drive.rs ---------------------------------
/// "scr": keys that differ in several bytes, ordered one way from the first byte and the other way from the
/// last one (so that nothing about the byte order of comparisons goes unnoticed)
static SCRAMBLED: std::sync::atomic::AtomicBool = std::sync::atomic::AtomicBool::new(false);
fn key_bytes<const N: usize>(num: u64) -> ArrayKey<N> {
    if SCRAMBLED.load(std::sync::atomic::Ordering::SeqCst) {
        let mut b = [0u8; N];
        for j in 0..N { b[j] = ((num * 37 + (j as u64) * 11) % 251) as u8; }
        b[0] = (num % 251) as u8;
        b[N - 1] = (250 - (num * 7) % 251) as u8;
        return ArrayKey::from(b);
    }
    let mut b = [0u8; N];
    let be = num.to_be_bytes();
    let n = N.min(8);
    b[N - n..].copy_from_slice(&be[8 - n..]);
    ArrayKey::from(b)
}
fn meta_of(m: u64) -> Meta {
    let mut meta = Meta::new();
    match m {
        0 => {}
        1 => { meta.insert("m".to_string(), vec![1u8]); }
        _ => { meta.insert("m".to_string(), vec![m as u8]); meta.insert("x".to_string(), vec![7u8, 7, 7]); }
    }
    meta
}
fn payload(v: u64, len: usize) -> Vec<u8> {
    let mut d = Vec::with_capacity(len);
    for i in 0..len {
        d.push(((v.wrapping_mul(131) + (i as u64) * 31 + ((i as u64) >> 8) * 7 + 13) & 0xff) as u8);
    }
    let idb = v.to_le_bytes();
    for i in 0..len.min(8) { d[i] = idb[i] ^ 0x5a; }
    d
}
fn size_of_class(class: &str, v: u64) -> usize {
    match class { "z0" => 0, "big" => 5000, _ => 12 + (v % 7) as usize }
}

fn builder(dir: &Path, bloom: &str) -> Builder {
    let mut b = Builder::new().work_dir(dir).blob_file_name_prefix("vb").corrupted_dir_name("corrupted")
        .max_blob_size(1 << 40).max_data_in_blob(1 << 31).allow_duplicates();
    if bloom == "default" {
        b = b.set_filter_config(BloomConfig::default());
    }
    if bloom == "small" {
        b = b.set_filter_config(BloomConfig { elements: 100, hashers_count: 2, max_buf_bits_count: 1000, buf_increase_step: 100, preferred_false_positive_rate: 0.001 });
    }
    b
}

fn tlc_line_payload(line: &str) -> Option<String> {
    let prefix = "<<\"BEHAVIOUR\", \"";
    let l = line.trim_end();
    if !l.starts_with(prefix) || !l.ends_with("\">>") { return None; }
    serde_json::from_str::<String>(&l[prefix.len() - 1..l.len() - 2]).ok()
}

/// compare the answers of the pinned code with the expectation (bytes against the payload of the
/// expected value id, so that equal payloads of different writes are not confused)
async fn answers_ok<const N: usize>(st: &Storage<ArrayKey<N>>, o: &ObsJ, payloads: &BTreeMap<u64, Vec<u8>>) -> bool {
    let same = |v: i64, b: &[u8]| payloads.get(&(v as u64)).map(|p| &p[..] == b).unwrap_or(false);
    for (idx, k) in o.keys.iter().enumerate() {
        let key = key_bytes::<N>(2 * (idx as u64 + 1));
        let ok_r = match st.read(&key).await {
            Ok(ReadResult::Found(b)) => k.r.t == "F" && same(k.r.n, &b),
            Ok(ReadResult::Deleted(ts)) => k.r.t == "D" && Into::<u64>::into(ts) as i64 == k.r.n,
            Ok(ReadResult::NotFound) => k.r.t == "N",
            Err(_) => false,
        };
        let ok_c = match st.contains(&key).await {
            Ok(ReadResult::Found(ts)) => k.c.t == "F" && Into::<u64>::into(ts) as i64 == k.c.n,
            Ok(ReadResult::Deleted(ts)) => k.c.t == "D" && Into::<u64>::into(ts) as i64 == k.c.n,
            Ok(ReadResult::NotFound) => k.c.t == "N",
            Err(_) => false,
        };
        let mut ok_all = true;
        match st.read_all_with_deletion_marker(&key).await {
            Ok(es) => {
                if es.len() != k.all.len() { ok_all = false; }
                for (e, x) in es.into_iter().zip(k.all.iter()) {
                    let ts: u64 = e.timestamp().into();
                    let del = e.is_deleted() as u64;
                    if ts != x.0 || del != x.1 { ok_all = false; continue; }
                    if del == 0 {
                        match e.load().await { Ok(r) => if !same(x.2 as i64, &r.into_data()) { ok_all = false }, Err(_) => ok_all = false }
                    }
                }
            }
            Err(_) => ok_all = false,
        }
        if !(ok_r && ok_c && ok_all) { return false; }
    }
    true
}

async fn run<const N: usize>(dir: PathBuf, bloom: String, beh: BehaviourJ, nkeys: u64) -> Result<(), String> {
    let _ = std::fs::remove_dir_all(&dir);
    std::fs::create_dir_all(&dir).map_err(|e| e.to_string())?;
    let mut st: Storage<ArrayKey<N>> = builder(&dir, &bloom).build().map_err(|e| format!("{e:#}"))?;
    st.init().await.map_err(|e| format!("{e:#}"))?;
    let mut payloads: BTreeMap<u64, Vec<u8>> = BTreeMap::new();
    let mut vid = 0u64;
    for (i, s) in beh.steps.iter().enumerate() {
        if s.act.a == "write" || s.act.a == "delete" { vid += 1; }
        let key = key_bytes::<N>(2 * s.act.k);
        let ts = BlobRecordTimestamp::new(s.act.ts);
        let got = match s.act.a.as_str() {
            "write" => {
                let data = payload(vid, size_of_class(&s.act.s, vid));
                payloads.insert(vid, data.clone());
                let r = if s.act.m == 0 { st.write(&key, Bytes::from(data), ts).await } else { st.write_with(&key, Bytes::from(data), ts, meta_of(s.act.m)).await };
                if r.is_ok() { ("ok".to_string(), 0) } else { ("err".into(), 0) }
            }
            "delete" => {
                let r = if s.act.m == 0 { st.delete(&key, ts, s.act.f == 1).await } else { st.delete_with(&key, ts, meta_of(s.act.m), s.act.f == 1).await };
                match r { Ok(n) => ("cnt".into(), n as i64), Err(_) => ("err".into(), 0) }
            }
            "close_active" => { let r = st.try_close_active_blob().await; tokio::time::sleep(Duration::from_millis(250)).await; if r.is_ok() { ("ok".into(), 0) } else { ("err".into(), 0) } }
            "create_active" => if st.try_create_active_blob().await.is_ok() { ("ok".into(), 0) } else { ("err".into(), 0) },
            "restore_active" => if st.try_restore_active_blob().await.is_ok() { ("ok".into(), 0) } else { ("err".into(), 0) },
            "restart" => {
                st.close().await.map_err(|e| format!("close {e:#}"))?;
                st = builder(&dir, &bloom).build().map_err(|e| format!("{e:#}"))?;
                if s.act.f & 2 == 2 { st.init_lazy().await } else { st.init().await }.map_err(|e| format!("init {e:#}"))?;
                ("ok".into(), 0)
            }
            other => return Err(format!("unsupported action {other}")),
        };
        if got.0 != s.ret.t || (s.ret.t == "cnt" && got.1 != s.ret.n) {
            return Err(format!("step {i} {}: pinned code returned {:?}, specification {:?}", s.act.a, got, s.ret));
        }
        if let Some(o) = &s.obs {
            if !answers_ok(&st, o, &payloads).await {
                return Err(format!("step {i} {}: answers of the pinned code differ from the specification", s.act.a));
            }
        }
    }
    st.close().await.map_err(|e| format!("close {e:#}"))?;
    let last = beh.steps.last().and_then(|s| s.obs.clone()).ok_or("no final observation")?;
    let meta = serde_json::json!({"ks": N, "bloom": bloom, "nkeys": nkeys, "keymap": if SCRAMBLED.load(std::sync::atomic::Ordering::SeqCst) { "scr" } else { "" }, "steps": beh.steps.iter().map(|s| &s.act).collect::<Vec<_>>(),
        "payloads": payloads.iter().map(|(k, v)| (k.to_string(), v.len())).collect::<BTreeMap<_, _>>(), "expected": last});
    std::fs::write(dir.join("expected.json"), serde_json::to_vec_pretty(&meta).unwrap()).map_err(|e| e.to_string())?;
    let _ = std::fs::remove_file(dir.join("pearl.lock"));
    Ok(())
}

fn main() {
    let a: Vec<String> = std::env::args().collect();
    let out = PathBuf::from(&a[1]);
    let ks: usize = a[2].parse().unwrap();
    let bloom = a[3].clone();
    let nkeys: u64 = a.get(4).and_then(|s| s.parse().ok()).unwrap_or(2);
    let keymap = a.get(5).cloned().unwrap_or_default();
    SCRAMBLED.store(keymap == "scr", std::sync::atomic::Ordering::SeqCst);
    let rt = tokio::runtime::Builder::new_multi_thread().worker_threads(2).enable_all().build().unwrap();
    let stdin = std::io::stdin();
    let (mut n, mut kept) = (0, 0);
    for line in stdin.lock().lines() {
        let line = line.unwrap();
        let text = match tlc_line_payload(&line) { Some(t) => t, None => continue };
        let beh: BehaviourJ = serde_json::from_str(&text).expect("behaviour");
        n += 1;
        let dir = out.join(format!("k{}-{}{}-{:03}", ks, bloom, if keymap.is_empty() { String::new() } else { format!("-{keymap}") }, n));
        let (d2, b2, bl) = (dir.clone(), beh.clone(), bloom.clone());
        let r = rt.block_on(async move {
            match ks { 4 => run::<4>(d2, bl, b2, nkeys).await, 8 => run::<8>(d2, bl, b2, nkeys).await, 16 => run::<16>(d2, bl, b2, nkeys).await, 32 => run::<32>(d2, bl, b2, nkeys).await, _ => Err("unsupported key size".into()) }
        });
        match r { Ok(()) => kept += 1, Err(e) => { eprintln!("skipped behaviour {n}: {e}"); let _ = std::fs::remove_dir_all(&dir); } }
    }
    println!("behaviours {n}, corpus directories written {kept}");
}
