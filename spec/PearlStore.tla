----------------------------- MODULE PearlStore -----------------------------
(***************************************************************************)
(* Sequential specification of the pearl storage (qoollo/pearl).           *)
(*                                                                         *)
(* Three layers:                                                           *)
(*  - reference layer (Ref.. operators): a transcription of the property statements   *)
(*    over the set of all records of all existing blobs, ranked by         *)
(*    (timestamp desc, blob id desc, append position desc);                *)
(*  - implementation-shaped layer (Store.. operators): per-blob ordered vectors with  *)
(*    pearl's insertion rule, on-disk arrays as per-key reversal, the      *)
(*    active-then-closed iteration with "keep first on ties", the          *)
(*    concatenate / conditionally sort / cut algorithm of read_all;        *)
(*  - the code itself, bound by the replay harness (harness/src/replay.rs) *)
(*    which compares observables with the reference layer.                 *)
(*                                                                         *)
(* One action per public call.  Background requests are sequentialised:    *)
(* with Quiesce = TRUE a request is processed completely inside the action *)
(* that issued it (the drivers wait for quiescence through the probe       *)
(* hook); with Quiesce = FALSE index dumps complete at arbitrary moments   *)
(* (action DumpIdx).                                                       *)
(*                                                                         *)
(* The constants RestoreLoadsIndex, WorkerSurvives, HolesCounted and       *)
(* QuarIdsReserved name deliberate deviations: the "required" value gives  *)
(* the behaviour the properties demand, the other value the behaviour of   *)
(* the code as found (findings F2, F1, F3, F8 of DESIGN.md).               *)
(***************************************************************************)
EXTENDS Naturals, Integers, Sequences, FiniteSets, SequencesExt, FiniteSetsExt, TLC

CONSTANTS
  Keys,              \* finite set of model keys (naturals)
  MaxTs,             \* timestamps are 1..MaxTs
  Metas,             \* subset of 0..2 ; 0 = call without metadata
  Sizes,             \* set of payload size classes (strings)
  AllowDup,          \* duplicates policy of the storage
  MaxRecs,           \* max_data_in_blob (0 = rotation never triggers)
  Quiesce,           \* TRUE: background work completes inside the issuing action
  OffloadLevels,     \* levels tried by offload_buffer (set of naturals, may be empty)
  DeferredFires,     \* TRUE: the deferred dump after a delete in a closed blob fires before the next call
  Deterministic,     \* TRUE: exclude steps whose outcome depends on wall-clock age of a blob
  RestoreLoadsIndex, \* required TRUE  (FALSE = F2)
  WorkerSurvives,    \* required TRUE  (FALSE = F1)
  HolesCounted,      \* required FALSE (TRUE  = F3)
  QuarIdsReserved,   \* required TRUE  (FALSE = F8)
  IgnoreCorrupted    \* configuration (Builder::ignore_corrupted): an unreadable blob file is left where
                     \* it is and skipped at every start instead of being moved to the corrupted
                     \* directory; `quar` then holds the ignored ids and nothing is counted as corrupted

VARIABLES
  blob,      \* id |-> [recs, idx, memv, ifcnt]   (files in the work directory)
  active,    \* id of the active blob or None
  slots,     \* children vector of the filter hierarchy: ids of closed blobs, Hole after a pop
  nextId,    \* next_blob_id
  usedIds,   \* every id that was ever used by a file of the directory (history)
  quar,      \* ids of blobs moved to the corrupted directory
  worker,    \* "running" | "dead"
  agedIds,   \* blobs known to be older than the rotation debounce interval
  opn,       \* number of data operations so far (gives every write a distinct value id)
  act,       \* last action (observation)
  ret        \* its return value (observation)

vars  == <<blob, active, slots, nextId, usedIds, quar, worker, agedIds, opn, act, ret>>
store == <<blob, active, slots, nextId, usedIds, quar, worker, agedIds>>

None == -1
Hole == -1

\* hid: the bytes are in the blob file but the record was never indexed (an operation whose
\* future was dropped after its write was handed to a blocking thread, C14); such a record is
\* invisible until a start-up rebuilds the index of its blob from the file
Rec(k, ts, del, m, v, sz) == [k |-> k, ts |-> ts, del |-> del, m |-> m, v |-> v, sz |-> sz, hid |-> FALSE]
EmptyMemv == [k \in Keys |-> <<>>]
NewBlob   == [recs |-> <<>>, idx |-> "mem", memv |-> EmptyMemv, ifcnt |-> -1]

Res(t, n) == [t |-> t, n |-> n]
ResN      == Res("N", 0)
Ok        == Res("ok", 0)
Err       == Res("err", 0)
Cnt(n)    == Res("cnt", n)

Act(a, k, ts, m, f, s) == [a |-> a, k |-> k, ts |-> ts, m |-> m, f |-> f, s |-> s]

Ids     == DOMAIN blob
SlotIds(sl) == {sl[j] : j \in DOMAIN sl} \ {Hole}
Closed  == SlotIds(slots)
LiveOf(a, sl) == SlotIds(sl) \cup (IF a = None THEN {} ELSE {a})
Live    == LiveOf(active, slots)

-----------------------------------------------------------------------------
(*                     Reference layer (property text)                     *)

\* addresses <<blob id, position>> of the records of key k in blob function bl over live set lv
AddrIn(bl, lv, k) ==
  UNION {{<<b, i>> : i \in {i \in DOMAIN bl[b].recs : bl[b].recs[i].k = k /\ ~bl[b].recs[i].hid}} : b \in lv}
RIn(bl, a) == bl[a[1]].recs[a[2]]

\* rank: greatest timestamp, then most recently created blob, then most recently appended
AboveIn(bl, x, y) ==
  \/ RIn(bl, x).ts > RIn(bl, y).ts
  \/ RIn(bl, x).ts = RIn(bl, y).ts /\ x[1] > y[1]
  \/ RIn(bl, x).ts = RIn(bl, y).ts /\ x[1] = y[1] /\ x[2] > y[2]

RankedIn(bl, lv, k) == SetToSortSeq(AddrIn(bl, lv, k), LAMBDA x, y : AboveIn(bl, x, y))

FirstDelIn(bl, s) ==
  LET d == {j \in DOMAIN s : RIn(bl, s[j]).del} IN IF d = {} THEN 0 ELSE Min(d)

RefAllWMIn(bl, lv, k) ==
  LET s == RankedIn(bl, lv, k)  d == FirstDelIn(bl, s)
  IN  IF d = 0 THEN s ELSE SubSeq(s, 1, d)

RefReadIn(bl, lv, k) ==
  LET s == RankedIn(bl, lv, k) IN
  IF s = <<>> THEN ResN
  ELSE IF RIn(bl, s[1]).del THEN Res("D", RIn(bl, s[1]).ts) ELSE Res("F", RIn(bl, s[1]).v)

RefContainsIn(bl, lv, k) ==
  LET s == RankedIn(bl, lv, k) IN
  IF s = <<>> THEN ResN
  ELSE IF RIn(bl, s[1]).del THEN Res("D", RIn(bl, s[1]).ts) ELSE Res("F", RIn(bl, s[1]).ts)

\* first listed live record whose metadata equals m, else Deleted if the list ends in a
\* marker, else NotFound.  wantTs: report the timestamp (contains) instead of the value id
RefWithIn(bl, lv, k, m, wantTs) ==
  LET l   == RefAllWMIn(bl, lv, k)
      hit == {j \in DOMAIN l : ~RIn(bl, l[j]).del /\ RIn(bl, l[j]).m = m}
  IN  IF hit # {} THEN Res("F", IF wantTs THEN RIn(bl, l[Min(hit)]).ts ELSE RIn(bl, l[Min(hit)]).v)
      ELSE IF l # <<>> /\ RIn(bl, l[Len(l)]).del THEN Res("D", RIn(bl, l[Len(l)]).ts)
      ELSE ResN

\* the blob-local winner exists and is not a marker
LocallyLiveIn(bl, b, k) ==
  LET own == AddrIn(bl, {b}, k) IN
  own # {} /\ ~RIn(bl, CHOOSE a \in own : \A o \in own \ {a} : AboveIn(bl, a, o)).del

RefRead(k)        == RefReadIn(blob, Live, k)
RefContains(k)    == RefContainsIn(blob, Live, k)
RefAllWM(k)       == RefAllWMIn(blob, Live, k)
RefAll(k)         == SelectSeq(RefAllWM(k), LAMBDA a : ~RIn(blob, a).del)
RefReadWith(k, m) == RefWithIn(blob, Live, k, m, FALSE)

\* the three fields compared for every listed entry
Tri(bl, a) == <<RIn(bl, a).ts, IF RIn(bl, a).del THEN 1 ELSE 0, RIn(bl, a).v>>
TriSeq(bl, s) == [j \in DOMAIN s |-> Tri(bl, s[j])]

\* "is (k, m) already live" as the duplicate check asks it: m = 0 is the call without
\* metadata (the key's first-ranked record is live), m > 0 the call with metadata
RefDupIn(bl, lv, k, m) ==
  IF m = 0 THEN RefContainsIn(bl, lv, k).t = "F" ELSE RefWithIn(bl, lv, k, m, TRUE).t = "F"

-----------------------------------------------------------------------------
(*                  Implementation-shaped layer (the code)                 *)

\* IndexStruct::push - vec is the per-key vector of positions, ascending by timestamp.
\* Sequential scan from 0 for <= 4 entries; otherwise binary search (any index holding an
\* equal timestamp, or the insertion point) followed by the scan to the right.
PushStarts(recs, vec, ts) ==
  IF Len(vec) <= 4 THEN {0}
  ELSE LET eq == {i \in 0..(Len(vec)-1) : recs[vec[i+1]].ts = ts} IN
       IF eq # {} THEN eq
       ELSE {Cardinality({i \in 1..Len(vec) : recs[vec[i]].ts < ts})}

RECURSIVE ScanRight(_, _, _, _)
ScanRight(recs, vec, ts, p) ==
  IF p < Len(vec) /\ recs[vec[p+1]].ts <= ts THEN ScanRight(recs, vec, ts, p+1) ELSE p

\* all vectors the code may produce (one element unless the design is wrong)
PushResults(recs, vec, pos, ts) ==
  {InsertAt(vec, ScanRight(recs, vec, ts, p0) + 1, pos) : p0 \in PushStarts(recs, vec, ts)}

\* appending record r to blob value bv, with the vector chosen by TLC among PushResults
AppendResults(bv, r) ==
  LET recs2 == Append(bv.recs, r)
      pos   == Len(recs2)
  IN  {[bv EXCEPT !.recs = recs2, !.memv[r.k] = nv] :
           nv \in PushResults(recs2, bv.memv[r.k], pos, r.ts)}

\* regeneration: push in file order
RECURSIVE RegenFrom(_, _, _)
RegenFrom(recs, i, mv) ==
  IF i > Len(recs) THEN mv
  ELSE IF recs[i].hid THEN RegenFrom(recs, i + 1, mv)
  ELSE LET k  == recs[i].k
           nv == CHOOSE x \in PushResults(recs, mv[k], i, recs[i].ts) : TRUE
       IN  RegenFrom(recs, i + 1, [mv EXCEPT ![k] = nv])
Regen(recs) == RegenFrom(recs, 1, EmptyMemv)

\* on-disk leaf array of a key: newest first (serializer reverses), load reverses back
DiskV(bv, k) == Reverse(bv.memv[k])

\* positions newest first, as get_all_with_deletion_marker sees them before the cut
BlobListing(bv, k) == IF bv.idx = "mem" THEN Reverse(bv.memv[k]) ELSE DiskV(bv, k)

BlobAllWM(bv, k) ==
  LET l == BlobListing(bv, k)
      d == {j \in DOMAIN l : bv.recs[l[j]].del}
  IN  IF d = {} THEN l ELSE SubSeq(l, 1, Min(d))

\* get_latest: last of the in-memory vector / leftmost of the on-disk run
BlobLatestPos(bv, k) ==
  IF bv.memv[k] = <<>> THEN 0
  ELSE IF bv.idx = "mem" THEN bv.memv[k][Len(bv.memv[k])] ELSE DiskV(bv, k)[1]

\* per-blob result [t, ts, v] of Blob::get_latest_entry(key, meta)
BRes(t, ts, v) == [t |-> t, ts |-> ts, v |-> v]
BlobLatest(bv, k, um, m) ==   \* um: a metadata argument was given (Some(meta))
  IF ~um THEN
    LET p == BlobLatestPos(bv, k) IN
    IF p = 0 THEN BRes("N", 0, 0)
    ELSE IF bv.recs[p].del THEN BRes("D", bv.recs[p].ts, 0)
    ELSE BRes("F", bv.recs[p].ts, bv.recs[p].v)
  ELSE \* get_entry_with_meta
    LET l    == BlobAllWM(bv, k)
        hasD == l # <<>> /\ bv.recs[l[Len(l)]].del
        ents == IF hasD THEN SubSeq(l, 1, Len(l) - 1) ELSE l
        hit  == {j \in DOMAIN ents : bv.recs[ents[j]].m = m}
    IN  IF hit # {} THEN BRes("F", bv.recs[ents[Min(hit)]].ts, bv.recs[ents[Min(hit)]].v)
        ELSE IF hasD THEN BRes("D", bv.recs[l[Len(l)]].ts, 0)
        ELSE BRes("N", 0, 0)

\* iteration order of the storage: active blob, then closed blobs newest first (holes skipped)
IterOrder(a, sl) ==
  (IF a = None THEN <<>> ELSE <<a>>) \o SelectSeq(Reverse(sl), LAMBDA x : x # Hole)

\* ReadResult::latest - a strictly greater timestamp replaces, NotFound is below everything
RECURSIVE FoldLatest(_, _, _, _, _, _)
FoldLatest(bl, order, k, um, m, acc) ==
  IF order = <<>> THEN acc
  ELSE LET e == BlobLatest(bl[Head(order)], k, um, m)
           better == e.t # "N" /\ (acc.t = "N" \/ e.ts > acc.ts)
       IN  FoldLatest(bl, Tail(order), k, um, m, IF better THEN e ELSE acc)

StoreLatestIn(bl, a, sl, k, um, m) == FoldLatest(bl, IterOrder(a, sl), k, um, m, BRes("N", 0, 0))

ToRead(e)     == IF e.t = "F" THEN Res("F", e.v) ELSE IF e.t = "D" THEN Res("D", e.ts) ELSE ResN
ToContains(e) == IF e.t = "N" THEN ResN ELSE Res(e.t, e.ts)

StoreRead(k)        == ToRead(StoreLatestIn(blob, active, slots, k, FALSE, 0))
StoreContains(k)    == ToContains(StoreLatestIn(blob, active, slots, k, FALSE, 0))
\* read_with always passes Some(meta); m = 0 is then the empty map, which is what a record
\* stored without metadata carries
StoreReadWith(k, m) == ToRead(StoreLatestIn(blob, active, slots, k, TRUE, m))
\* duplicate check of write (m = 0: no metadata argument) / write_with (m > 0)
StoreDupIn(bl, a, sl, k, m) == StoreLatestIn(bl, a, sl, k, m # 0, m).t = "F"

\* read_all_with_deletion_marker: concatenate, count contributing blobs, sort by timestamp
\* only if more than one contributed, cut at the first marker only if one was seen
RECURSIVE InsertDesc(_, _, _)
InsertDesc(bl, s, a) ==  \* stable: after the last element with ts >= the new one
  IF s = <<>> THEN <<a>>
  ELSE IF RIn(bl, Head(s)).ts >= RIn(bl, a).ts THEN <<Head(s)>> \o InsertDesc(bl, Tail(s), a)
  ELSE <<a>> \o s
RECURSIVE StableSortDesc(_, _, _)
StableSortDesc(bl, s, acc) ==
  IF s = <<>> THEN acc ELSE StableSortDesc(bl, Tail(s), InsertDesc(bl, acc, Head(s)))

StoreAllWM(k) ==
  LET order == IterOrder(active, slots)
      per   == [j \in DOMAIN order |->
                  LET b == order[j]  l == BlobAllWM(blob[b], k)
                  IN  [i \in DOMAIN l |-> <<b, l[i]>>]]
      cat   == FlattenSeq(per)
      affected == Cardinality({j \in DOMAIN per : per[j] # <<>>})
      sawDel   == \E j \in DOMAIN per : per[j] # <<>> /\ RIn(blob, per[j][Len(per[j])]).del
      sorted   == IF affected > 1 THEN StableSortDesc(blob, cat, <<>>) ELSE cat
      d        == FirstDelIn(blob, sorted)
  IN  IF affected > 1 /\ sawDel /\ d # 0 THEN SubSeq(sorted, 1, d) ELSE sorted

-----------------------------------------------------------------------------
(*                              Observables                                *)

SumLen(bl, S) == FoldSet(LAMBDA b, acc : acc + Len(bl[b].recs), 0, S)

CountsOf(bl, a, sl, nid, q) ==
  [ records   |-> SumLen(bl, LiveOf(a, sl)),
    blobs     |-> (IF HolesCounted THEN Len(sl) ELSE Cardinality(SlotIds(sl)))
                    + (IF a = None THEN 0 ELSE 1),
    activeCnt |-> IF a = None THEN -1 ELSE Len(bl[a].recs),
    closed    |-> LET cs == SelectSeq(sl, LAMBDA x : x # Hole)
                  IN  [j \in DOMAIN cs |-> <<cs[j], Len(bl[cs[j]].recs)>>],
    nextId    |-> nid,
    corrupted |-> IF IgnoreCorrupted THEN 0 ELSE Cardinality(q) ]

Counts == CountsOf(blob, active, slots, nextId, quar)

\* all observables of one key from one evaluation of the ranking (same definitions as
\* RefRead / RefContains / RefAllWM / RefReadWith above, sharing the sorted list),
\* as a function of the files (bl) and the live set (lv)
KeyObsIn(bl, lv, k) ==
  LET s   == RankedIn(bl, lv, k)
      d   == FirstDelIn(bl, s)
      l   == IF d = 0 THEN s ELSE SubSeq(s, 1, d)
      top == RIn(bl, s[1])
      W(m) == LET hit == {j \in DOMAIN l : ~RIn(bl, l[j]).del /\ RIn(bl, l[j]).m = m} IN
              IF hit # {} THEN Res("F", RIn(bl, l[Min(hit)]).v)
              ELSE IF l # <<>> /\ RIn(bl, l[Len(l)]).del THEN Res("D", RIn(bl, l[Len(l)]).ts)
              ELSE ResN
  IN
  [ r    |-> IF s = <<>> THEN ResN ELSE IF top.del THEN Res("D", top.ts) ELSE Res("F", top.v),
    c    |-> IF s = <<>> THEN ResN ELSE IF top.del THEN Res("D", top.ts) ELSE Res("F", top.ts),
    all  |-> TriSeq(bl, l),
    w    |-> [m \in 0..2 |-> W(m)],
    has  |-> s # <<>> ]
KeyObs(k) == KeyObsIn(blob, Live, k)

\* the complete observable state as a function of a snapshot of the store variables
Snapshot == [bl |-> blob, a |-> active, sl |-> slots, nid |-> nextId, q |-> quar, w |-> worker]
ObsOf(sn) ==
  [ keys   |-> [k \in Keys |-> KeyObsIn(sn.bl, LiveOf(sn.a, sn.sl), k)],
    counts |-> CountsOf(sn.bl, sn.a, sn.sl, sn.nid, sn.q),
    ondisk |-> {b \in LiveOf(sn.a, sn.sl) : sn.bl[b].idx = "disk"},
    alive  |-> sn.w = "running" ]

\* KeyObs is the same function as the separate reference operators
KeyObsOK == \A k \in Keys :
   KeyObs(k) = [ r |-> RefRead(k), c |-> RefContains(k), all |-> TriSeq(blob, RefAllWM(k)),
                 w |-> [m \in 0..2 |-> RefReadWith(k, m)], has |-> AddrIn(blob, Live, k) # {} ]

\* index representation per live blob: "mem" / "disk"; used only for the exact disk_used
\* expectation in quiescent replays
IdxOf == [b \in Live |-> blob[b].idx]

-----------------------------------------------------------------------------
(*                               Actions                                   *)

OverLimit(n) == MaxRecs > 0 /\ n >= MaxRecs

\* Blob::dump on every closed blob: non-empty in-memory indexes go to disk
DumpAllIn(bl, cl) ==
  [b \in DOMAIN bl |->
     IF b \in cl /\ bl[b].idx = "mem" /\ bl[b].recs # <<>>
     THEN [bl[b] EXCEPT !.idx = "disk", !.ifcnt = Len(bl[b].recs)]
     ELSE bl[b]]

\* effect of a TryDumpBlobIndexes request
AfterTryDump(bl, cl) == IF Quiesce /\ worker = "running" THEN DumpAllIn(bl, cl) ELSE bl

WithNew(bl, id) == bl @@ (id :> NewBlob)

\* ---- data operations -----------------------------------------------------

\* dup check of the code runs on the implementation-shaped layer; TLC checks DupOK separately
Write(k, ts, m, sz) ==
  LET created == active = None
      a1      == IF created THEN nextId ELSE active
      bl1     == IF created THEN WithNew(blob, nextId) ELSE blob
      nid1    == IF created THEN nextId + 1 ELSE nextId
      dup     == ~AllowDup /\ RefDupIn(bl1, LiveOf(a1, slots), k, m)
      r       == Rec(k, ts, FALSE, m, opn + 1, sz)
  IN
  /\ opn' = opn + 1
  /\ act' = Act("write", k, ts, m, 0, sz)
  /\ ret' = Ok
  /\ UNCHANGED <<quar, worker>>
  /\ IF dup
     THEN /\ blob' = bl1 /\ active' = a1 /\ nextId' = nid1
          /\ usedIds' = usedIds \cup {a1}
          /\ UNCHANGED <<slots, agedIds>>
     ELSE \E nb \in AppendResults(bl1[a1], r) :
            LET bl2    == [bl1 EXCEPT ![a1] = nb]
                over   == OverLimit(Len(nb.recs))
                known  == a1 \in agedIds
            IN
            /\ (Deterministic /\ over) => known
            /\ \E rotate \in (IF over /\ worker = "running"
                              THEN (IF known THEN {TRUE} ELSE BOOLEAN) ELSE {FALSE}) :
                 IF rotate
                 THEN /\ active' = nid1
                      /\ nextId' = nid1 + 1
                      /\ slots'  = Append(slots, a1)
                      /\ blob'   = AfterTryDump(WithNew(bl2, nid1), SlotIds(slots) \cup {a1})
                      /\ usedIds' = usedIds \cup {a1, nid1}
                      /\ UNCHANGED agedIds
                 ELSE /\ blob' = bl2 /\ active' = a1 /\ nextId' = nid1
                      /\ usedIds' = usedIds \cup {a1}
                      /\ UNCHANGED <<slots, agedIds>>

\* sequential application of one marker per target blob
RECURSIVE AppendMarkers(_, _, _)
AppendMarkers(bl, targets, r) ==
  IF targets = {} THEN bl
  ELSE LET b  == CHOOSE x \in targets : TRUE
           nb == CHOOSE x \in AppendResults([bl[b] EXCEPT !.idx = "mem"], r) : TRUE
       IN  AppendMarkers([bl EXCEPT ![b] = nb], targets \ {b}, r)

Delete(k, ts, m, onlyIf) ==
  LET created == active = None /\ ~onlyIf
      a1      == IF created THEN nextId ELSE active
      bl1     == IF created THEN WithNew(blob, nextId) ELSE blob
      nid1    == IF created THEN nextId + 1 ELSE nextId
      inAct   == IF a1 # None /\ (~onlyIf \/ LocallyLiveIn(bl1, a1, k)) THEN {a1} ELSE {}
      inCl    == {b \in Closed : LocallyLiveIn(bl1, b, k)}
      r       == Rec(k, ts, TRUE, m, opn + 1, "z")
      bl2     == AppendMarkers(bl1, inAct \cup inCl, r)
      bl3     == IF inCl # {} /\ Quiesce /\ DeferredFires /\ worker = "running"
                 THEN DumpAllIn(bl2, Closed) ELSE bl2
  IN
  /\ opn' = opn + 1
  /\ act' = Act("delete", k, ts, m, IF onlyIf THEN 1 ELSE 0, "z")
  /\ ret' = Cnt(Cardinality(inAct \cup inCl))
  /\ blob' = bl3 /\ active' = a1 /\ nextId' = nid1
  /\ usedIds' = IF a1 = None THEN usedIds ELSE usedIds \cup {a1}
  /\ UNCHANGED <<slots, quar, worker, agedIds>>

\* ---- lifecycle (synchronous variants) --------------------------------------

DoClose(bl, a, sl) ==  \* effect on <<blob, active, slots>> of closing the active blob a
  <<AfterTryDump(bl, SlotIds(sl) \cup {a}), None, Append(sl, a)>>

LastSlot(sl) == IF SlotIds(sl) = {} THEN 0 ELSE Max({j \in DOMAIN sl : sl[j] # Hole})

CloseActive ==
  /\ act' = Act("close_active", 0, 0, 0, 0, "")
  /\ IF active = None
     THEN /\ ret' = Err
          /\ blob' = AfterTryDump(blob, Closed)   \* the dump request is sent regardless
          /\ UNCHANGED <<active, slots>>
     ELSE /\ ret' = Ok
          /\ blob' = DoClose(blob, active, slots)[1]
          /\ active' = None
          /\ slots' = Append(slots, active)
  /\ UNCHANGED <<nextId, usedIds, quar, worker, agedIds, opn>>

CreateActive ==
  /\ act' = Act("create_active", 0, 0, 0, 0, "")
  /\ IF active # None
     THEN ret' = Err /\ UNCHANGED <<blob, active, nextId, usedIds>>
     ELSE /\ ret' = Ok
          /\ blob' = WithNew(blob, nextId) /\ active' = nextId /\ nextId' = nextId + 1
          /\ usedIds' = usedIds \cup {nextId}
  /\ UNCHANGED <<slots, quar, worker, agedIds, opn>>

RestoreActive ==
  /\ act' = Act("restore_active", 0, 0, 0, 0, "")
  /\ IF active # None \/ LastSlot(slots) = 0
     THEN ret' = Err /\ UNCHANGED <<blob, active, slots>>
     ELSE LET j == LastSlot(slots)  b == slots[j] IN
          /\ ret' = Ok
          /\ active' = b
          /\ slots' = [slots EXCEPT ![j] = Hole]
          /\ blob' = IF RestoreLoadsIndex THEN [blob EXCEPT ![b].idx = "mem"] ELSE blob
  /\ UNCHANGED <<nextId, usedIds, quar, worker, agedIds, opn>>

\* ---- requests handled by the background worker -----------------------------

\* pred: "always" | "never" | "ifactive"
ForceUpdate(pred) ==
  LET fire == worker = "running" /\ (pred = "always" \/ (pred = "ifactive" /\ active # None)) IN
  /\ act' = Act("force_update", 0, 0, 0, 0, pred)
  /\ ret' = Ok
  /\ IF fire
     THEN LET sl2 == IF active = None THEN slots ELSE Append(slots, active) IN
          /\ active' = nextId /\ nextId' = nextId + 1
          /\ slots' = sl2
          /\ blob' = AfterTryDump(WithNew(blob, nextId), SlotIds(sl2))
          /\ usedIds' = usedIds \cup {nextId}
     ELSE /\ blob' = AfterTryDump(blob, Closed)
          /\ UNCHANGED <<active, nextId, slots, usedIds>>
  /\ UNCHANGED <<quar, worker, agedIds, opn>>

\* an inapplicable background request must leave the worker running (C13)
Inapplicable == IF WorkerSurvives THEN "running" ELSE "dead"

CloseBg ==
  /\ act' = Act("close_bg", 0, 0, 0, 0, "") /\ ret' = Ok
  /\ IF worker # "running" THEN UNCHANGED <<blob, active, slots, worker>>
     ELSE IF active = None
     THEN /\ worker' = Inapplicable
          /\ blob' = IF Inapplicable = "running" THEN AfterTryDump(blob, Closed) ELSE blob
          /\ UNCHANGED <<active, slots>>
     ELSE /\ blob' = DoClose(blob, active, slots)[1] /\ active' = None
          /\ slots' = Append(slots, active) /\ UNCHANGED worker
  /\ UNCHANGED <<nextId, usedIds, quar, agedIds, opn>>

CreateBg ==
  /\ act' = Act("create_bg", 0, 0, 0, 0, "") /\ ret' = Ok
  /\ IF worker # "running" THEN UNCHANGED <<blob, active, nextId, usedIds, worker>>
     ELSE IF active # None
     THEN worker' = Inapplicable /\ UNCHANGED <<blob, active, nextId, usedIds>>
     ELSE /\ blob' = WithNew(blob, nextId) /\ active' = nextId /\ nextId' = nextId + 1
          /\ usedIds' = usedIds \cup {nextId} /\ UNCHANGED worker
  /\ UNCHANGED <<slots, quar, agedIds, opn>>

RestoreBg ==
  /\ act' = Act("restore_bg", 0, 0, 0, 0, "") /\ ret' = Ok
  /\ IF worker # "running" THEN UNCHANGED <<blob, active, slots, worker>>
     ELSE IF active # None \/ LastSlot(slots) = 0
     THEN worker' = Inapplicable /\ UNCHANGED <<blob, active, slots>>
     ELSE LET j == LastSlot(slots)  b == slots[j] IN
          /\ active' = b /\ slots' = [slots EXCEPT ![j] = Hole]
          /\ blob' = IF RestoreLoadsIndex THEN [blob EXCEPT ![b].idx = "mem"] ELSE blob
          /\ UNCHANGED worker
  /\ UNCHANGED <<nextId, usedIds, quar, agedIds, opn>>

\* free_excess_resources, fsyncdata, offload_buffer: representation only
FreeExcess ==
  /\ act' = Act("free_excess", 0, 0, 0, 0, "") /\ ret' = Ok
  /\ blob' = AfterTryDump(blob, Closed)
  /\ UNCHANGED <<active, slots, nextId, usedIds, quar, worker, agedIds, opn>>

Fsync ==
  /\ act' = Act("fsync", 0, 0, 0, 0, "") /\ ret' = Ok
  /\ UNCHANGED <<store, opn>>

Offload(level) ==
  /\ act' = Act("offload", 0, 0, 0, level, "") /\ ret' = Ok
  /\ UNCHANGED <<store, opn>>

\* the driver sleeps longer than the rotation debounce interval
Age ==
  /\ MaxRecs > 0 /\ agedIds # Ids
  /\ act' = Act("age", 0, 0, 0, 0, "") /\ ret' = Ok
  /\ agedIds' = Ids
  /\ UNCHANGED <<blob, active, slots, nextId, usedIds, quar, worker, opn>>

\* an index dump completing at an arbitrary moment (only without Quiesce)
DumpIdx(b) ==
  /\ ~Quiesce /\ b \in Closed /\ blob[b].idx = "mem" /\ blob[b].recs # <<>>
  /\ act' = Act("dump_idx", 0, 0, 0, b, "") /\ ret' = Ok
  /\ blob' = [blob EXCEPT ![b].idx = "disk", ![b].ifcnt = Len(blob[b].recs)]
  /\ UNCHANGED <<active, slots, nextId, usedIds, quar, worker, agedIds, opn>>

\* ---- close + damage to index files + open ----------------------------------

\* dmg: per blob id one of "keep" | "lose" (removed, truncated, header only, written flag
\* clear: anything that fails validation) | "stale" (a complete index of a shorter blob)
\* The index file is a cache: whatever dmg is, Open regenerates what is not valid.
\* blobIn: the files as they are when the session ends (= blob, except in trace validation
\* where records hidden by a dropped future may be revealed by the start-up)
RestartLB(blobIn, graceful, lazy, dmg, label) ==
  LET \* Storage::close dumps the active blob
      bl0 == IF graceful /\ active # None THEN DumpAllIn(blobIn, {active}) ELSE blobIn
      \* files as found by Open
      bl1 == [b \in DOMAIN bl0 |->
                IF dmg[b] = "keep" THEN bl0[b]
                ELSE IF dmg[b] = "lose" THEN [bl0[b] EXCEPT !.ifcnt = -1]
                ELSE [bl0[b] EXCEPT !.ifcnt = -2]]
      ids == DOMAIN bl1
      \* a directory without any blob file is initialised like a new one (also by init_lazy):
      \* a fresh active blob, whose id must still be above every id ever used (quarantined ones)
      none  == ids = {}
      \* ... unless the directory still holds ignored (unreadable) blob files: then it is an
      \* existing directory whose blobs all failed to load, and init_lazy leaves it without an
      \* active blob
      bare  == none /\ lazy /\ IgnoreCorrupted /\ quar # {}
      fresh == (IF QuarIdsReserved THEN Max(usedIds) ELSE -1) + 1
      top == IF none THEN fresh ELSE Max(ids)
      a2  == IF bare THEN None ELSE IF none THEN fresh ELSE IF lazy THEN None ELSE top
      \* an index is used iff it is valid for the current blob length; otherwise it is
      \* rebuilt from the blob by pushing in file order; every non-active blob is dumped
      bl2 == [b \in ids |->
                LET valid == bl1[b].ifcnt = Len(bl1[b].recs)
                    mv    == IF valid THEN bl1[b].memv ELSE Regen(bl1[b].recs)
                IN  IF b = a2
                    THEN [recs |-> bl1[b].recs, idx |-> "mem", memv |-> mv,
                          ifcnt |-> IF valid THEN bl1[b].ifcnt ELSE bl1[b].ifcnt]
                    ELSE IF bl1[b].recs = <<>>
                    THEN [recs |-> <<>>, idx |-> "mem", memv |-> mv, ifcnt |-> bl1[b].ifcnt]
                    ELSE [recs |-> bl1[b].recs, idx |-> "disk", memv |-> mv,
                          ifcnt |-> Len(bl1[b].recs)]]
      cl  == SetToSortSeq(ids \ {a2}, <)
  IN
  /\ act' = Act("restart", 0, 0, 0, (IF graceful THEN 1 ELSE 0) + (IF lazy THEN 2 ELSE 0), label)
  /\ ret' = Ok
  /\ blob' = IF none /\ ~bare THEN (fresh :> NewBlob) ELSE bl2
  /\ active' = a2 /\ slots' = cl
  /\ nextId' = (IF none /\ ~bare THEN fresh ELSE IF QuarIdsReserved THEN Max(usedIds) ELSE top) + 1
  /\ usedIds' = IF none /\ ~bare THEN usedIds \cup {fresh} ELSE usedIds
  /\ worker' = "running"
  /\ agedIds' = {}
  /\ UNCHANGED <<quar, opn>>

RestartL(graceful, lazy, dmg, label) == RestartLB(blob, graceful, lazy, dmg, label)
Restart(graceful, lazy, dmg) == RestartL(graceful, lazy, dmg, "")

\* Restart during which the file of blob `victim` is found unreadable (truncated inside a
\* record or inside its header): the blob is moved to the corrupted directory together with
\* everything it held (its index file is removed); its id stays used for ever (C03 / C07 / C15).
\* When nothing is left an eager start creates a fresh active blob.
RestartCorrupt(graceful, lazy, victim) ==
  LET bl0  == IF graceful /\ active # None THEN DumpAllIn(blob, {active}) ELSE blob
      ids  == DOMAIN bl0 \ {victim}
      nid  == (IF QuarIdsReserved THEN Max(usedIds) ELSE IF ids = {} THEN -1 ELSE Max(ids)) + 1
      fresh == ids = {} /\ ~lazy
      a2   == IF lazy THEN None ELSE IF ids = {} THEN nid ELSE Max(ids)
      bl2  == [b \in ids |->
                LET valid == bl0[b].ifcnt = Len(bl0[b].recs)
                    mv    == IF valid THEN bl0[b].memv ELSE Regen(bl0[b].recs)
                IN  IF b = a2 THEN [recs |-> bl0[b].recs, idx |-> "mem", memv |-> mv, ifcnt |-> bl0[b].ifcnt]
                    ELSE IF bl0[b].recs = <<>> THEN [recs |-> <<>>, idx |-> "mem", memv |-> mv, ifcnt |-> bl0[b].ifcnt]
                    ELSE [recs |-> bl0[b].recs, idx |-> "disk", memv |-> mv, ifcnt |-> Len(bl0[b].recs)]]
  IN
  /\ victim \in Ids
  /\ act' = Act("restart", victim, 0, 0, (IF graceful THEN 1 ELSE 0) + (IF lazy THEN 2 ELSE 0) + 4, "corrupt")
          \* f: bit 2 = a blob file is damaged; k carries the victim
  /\ ret' = Ok
  /\ blob' = IF fresh THEN bl2 @@ (nid :> NewBlob) ELSE bl2
  /\ active' = a2
  /\ slots' = SetToSortSeq(ids \ {a2}, <)
  /\ nextId' = IF fresh THEN nid + 1 ELSE nid
  /\ usedIds' = IF fresh THEN usedIds \cup {nid} ELSE usedIds
  /\ quar' = quar \cup {victim}
  /\ worker' = "running" /\ agedIds' = {}
  /\ UNCHANGED opn

\* every assignment of damage classes, for model checking
Damages == [Ids -> {"keep", "lose", "stale"}]

-----------------------------------------------------------------------------

Init ==
  /\ blob = (0 :> NewBlob) /\ active = 0 /\ slots = <<>> /\ nextId = 1
  /\ usedIds = {0} /\ quar = {} /\ worker = "running" /\ agedIds = {} /\ opn = 0
  /\ act = Act("init", 0, 0, 0, 0, "") /\ ret = Ok

DataNext ==
  \/ \E k \in Keys, ts \in 1..MaxTs, m \in Metas, sz \in Sizes : Write(k, ts, m, sz)
  \/ \E k \in Keys, ts \in 1..MaxTs, m \in Metas, o \in BOOLEAN : Delete(k, ts, m, o)

LifeNext ==
  \/ CloseActive \/ CreateActive \/ RestoreActive
  \/ \E p \in {"always", "never", "ifactive"} : ForceUpdate(p)
  \/ CloseBg \/ CreateBg \/ RestoreBg
  \/ FreeExcess \/ Fsync \/ Age
  \/ \E l \in OffloadLevels : Offload(l)
  \/ \E b \in Ids : DumpIdx(b)

RestartNext ==
  \E g \in BOOLEAN, lz \in BOOLEAN, d \in Damages : Restart(g, lz, d)

Next == DataNext \/ LifeNext \/ RestartNext

Spec == Init /\ [][Next]_vars

-----------------------------------------------------------------------------
(*                 Properties checked by TLC on this module                *)

TypeOK ==
  /\ active \in Ids \cup {None}
  /\ Closed \subseteq Ids
  /\ active \notin Closed \/ active = None
  /\ \A b \in Ids : b < nextId
  /\ Ids \subseteq usedIds

\* C01: the implementation-shaped read equals the property text
ReadOK     == \A k \in Keys : StoreRead(k) = RefRead(k)
ContainsOK == \A k \in Keys : StoreContains(k) = RefContains(k)
\* C02
ReadAllOK  == \A k \in Keys : StoreAllWM(k) = RefAllWM(k)
ReadWithOK == \A k \in Keys, m \in 0..2 : StoreReadWith(k, m) = RefReadWith(k, m)
DupOK      == \A k \in Keys, m \in Metas :
                 StoreDupIn(blob, active, slots, k, m) = RefDupIn(blob, Live, k, m)

\* structure behind "blob recency = iteration order"
OrderLemma ==
  /\ \A i, j \in DOMAIN slots : i < j /\ slots[i] # Hole /\ slots[j] # Hole => slots[i] < slots[j]
  /\ active # None => \A b \in Closed : b < active

\* the in-memory vectors are what regeneration from the blob would give (index = cache, C03)
IndexIsCache == \A b \in Ids : blob[b].memv = Regen(blob[b].recs)

\* an index file is trusted only if it describes the whole blob
StaleIndexNeverUsed == \A b \in Ids : blob[b].idx = "disk" => blob[b].ifcnt = Len(blob[b].recs)

\* the active blob always accepts appends (C04: storage keeps accepting writes)
ActiveWritable == active # None => blob[active].idx = "mem"

\* C03 / C07: ids are never reused
IdsAboveAllUsed == \A i \in usedIds : i < nextId

\* C13
WorkerRunning == worker = "running"

\* C04 / C03: lifecycle, maintenance and restart never change any answer
ObsAnswers == [k \in Keys |-> <<RefRead(k), RefContains(k), TriSeq(blob, RefAllWM(k)),
                               [m \in 0..2 |-> RefReadWith(k, m)]>>]
IsData == act' .a \in {"write", "delete"}
Transparent == [][~IsData => ObsAnswers' = ObsAnswers]_vars

\* C15: totals never change except by data operations
RecordsTotal == SumLen(blob, Ids)
CountsStable == [][~IsData => RecordsTotal' = RecordsTotal]_vars
\* no record is ever outside the live set (restore / close never lose a blob)
NoOrphanBlob == Ids = Live

=============================================================================
