SPECIFICATION MCSpecUniform
CONSTANTS
  Keys = {1}
  MaxTs = 2
  Metas = {0, 1}
  Sizes = {"s"}
  AllowDup = TRUE
  MaxRecs = 2
  Quiesce = FALSE
  DeferredFires = TRUE
  Deterministic = FALSE
  OffloadLevels = {}
  RestoreLoadsIndex = TRUE
  WorkerSurvives = TRUE
  HolesCounted = FALSE
  QuarIdsReserved = TRUE
  MaxOps = 2
  MaxBlobId = 2
VIEW View
CONSTRAINT Bound
INVARIANTS TypeOK ReadOK ContainsOK ReadAllOK ReadWithOK DupOK OrderLemma IndexIsCache
           StaleIndexNeverUsed ActiveWritable IdsAboveAllUsed WorkerRunning NoOrphanBlob
CHECK_DEADLOCK FALSE
