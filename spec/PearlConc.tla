------------------------------ MODULE PearlConc ------------------------------
(***************************************************************************)
(* Synchronisation skeleton of the storage (src/storage/core.rs,           *)
(* observer.rs, observer_worker.rs): client operations hold the storage    *)
(* lock `safe` in read mode for their whole duration; requests to the      *)
(* background worker go through a bounded channel; the worker needs `safe` *)
(* in write mode to switch the active blob.  Both lock families used by    *)
(* pearl (tokio::sync::RwLock, async_lock::RwLock) are write-preferring: a *)
(* waiting writer blocks new readers.                                      *)
(*                                                                         *)
(* One step per await point.  SendUnderLock = TRUE is the code as found    *)
(* (the rotation / sync / deferred-dump requests are sent while the read   *)
(* guard is still held); FALSE is the required discipline (send after the  *)
(* guard is released).  TLC checks deadlock freedom (C08) and that every   *)
(* request is eventually processed (C13).                                  *)
(***************************************************************************)
EXTENDS Naturals, Sequences, FiniteSets, TLC

CONSTANTS Clients,        \* set of client ids
          Cap,            \* channel capacity (1024 in pearl)
          OpsPerClient,   \* operations each client performs
          SendUnderLock   \* TRUE = code as found (F7), FALSE = required

VARIABLES pc,        \* client |-> "idle" | "waitRead" | "inOp" | "sending" | "sendingFree" | "done"
          left,      \* client |-> operations still to do
          readers,   \* clients holding `safe` in read mode
          writer,    \* TRUE while the worker holds `safe` in write mode
          wantW,     \* TRUE while the worker waits for write mode
          chan,      \* messages in the channel
          wpc        \* worker: "recv" | "wantWrite" | "hasWrite"

cvars == <<pc, left, readers, writer, wantW, chan, wpc>>

CInit ==
  /\ pc = [c \in Clients |-> "idle"] /\ left = [c \in Clients |-> OpsPerClient]
  /\ readers = {} /\ writer = FALSE /\ wantW = FALSE /\ chan = <<>> /\ wpc = "recv"

\* a client starts an operation: asks for the read lock
Begin(c) ==
  /\ pc[c] = "idle" /\ left[c] > 0
  /\ pc' = [pc EXCEPT ![c] = "waitRead"]
  /\ UNCHANGED <<left, readers, writer, wantW, chan, wpc>>

\* write-preferring: no reader gets in while a writer holds or waits
GetRead(c) ==
  /\ pc[c] = "waitRead" /\ ~writer /\ ~wantW
  /\ readers' = readers \cup {c}
  /\ pc' = [pc EXCEPT ![c] = "inOp"]
  /\ UNCHANGED <<left, writer, wantW, chan, wpc>>

\* the operation itself is done (append + index push); now the request to the worker
OpDone(c) ==
  /\ pc[c] = "inOp"
  /\ IF SendUnderLock
     THEN pc' = [pc EXCEPT ![c] = "sending"] /\ UNCHANGED readers
     ELSE pc' = [pc EXCEPT ![c] = "sendingFree"] /\ readers' = readers \ {c}
  /\ UNCHANGED <<left, writer, wantW, chan, wpc>>

\* sender.send(msg).await: completes only when the channel has room
Send(c) ==
  /\ pc[c] \in {"sending", "sendingFree"} /\ Len(chan) < Cap
  /\ chan' = Append(chan, c)
  /\ readers' = readers \ {c}
  /\ left' = [left EXCEPT ![c] = @ - 1]
  /\ pc' = [pc EXCEPT ![c] = IF left[c] = 1 THEN "done" ELSE "idle"]
  /\ UNCHANGED <<writer, wantW, wpc>>

\* worker: receive one message, then switch the active blob under the write lock
WRecv ==
  /\ wpc = "recv" /\ chan # <<>>
  /\ chan' = Tail(chan) /\ wpc' = "wantWrite" /\ wantW' = TRUE
  /\ UNCHANGED <<pc, left, readers, writer>>
WGetWrite ==
  /\ wpc = "wantWrite" /\ readers = {}
  /\ writer' = TRUE /\ wantW' = FALSE /\ wpc' = "hasWrite"
  /\ UNCHANGED <<pc, left, readers, chan>>
WRelease ==
  /\ wpc = "hasWrite"
  /\ writer' = FALSE /\ wpc' = "recv"
  /\ UNCHANGED <<pc, left, readers, wantW, chan>>

AllDone == (\A c \in Clients : pc[c] = "done") /\ chan = <<>> /\ wpc = "recv"
Terminated == AllDone /\ UNCHANGED cvars

CNext == (\E c \in Clients : Begin(c) \/ GetRead(c) \/ OpDone(c) \/ Send(c))
         \/ WRecv \/ WGetWrite \/ WRelease \/ Terminated

CSpec == CInit /\ [][CNext]_cvars /\ WF_cvars(CNext)

\* C08: no state (other than completion) without a next step - checked as an invariant so
\* that the offending state is printed with its trace
NoDeadlock ==
  AllDone \/ ENABLED ((\E c \in Clients : Begin(c) \/ GetRead(c) \/ OpDone(c) \/ Send(c)) \/ WRecv \/ WGetWrite \/ WRelease)

LockOK == ~(writer /\ readers # {})

\* C13 / C08 (liveness, under weak fairness of the next-state relation): every request is processed
\* and every client finishes
Termination == <>[]AllDone
=============================================================================
