------------------------------ MODULE GenIndex ------------------------------
(* Emits every shape checked by PearlIndex as one JSON line for the harness. *)
EXTENDS PearlIndex, Json
CONSTANTS SampleMod, SampleKeep, Seed
Hash == (SumTo(cnt, N) * 7919 + N * 104729 + Len(pat) * 31 + delAt * 17 + cnt[1] * 13 + cnt[N] * 5 + Seed) % SampleMod
EmitShape == (chosen /\ Hash < SampleKeep) => PrintT(<<"SHAPE", ToJson(ShapeJson)>>)
=============================================================================
