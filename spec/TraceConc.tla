------------------------------ MODULE TraceConc ------------------------------
(***************************************************************************)
(* Trace validation of concurrent executions (C08).  The trace contains,   *)
(* in the order of one global atomic counter, the invocation and response  *)
(* of every client call and the commit event of every append, emitted by   *)
(* the storage under the blob lock right after the record was indexed      *)
(* (linearization point of the mutation; a delete that marks several blobs *)
(* commits several times).                                                 *)
(*                                                                         *)
(* The reference store is the set of committed records ranked by           *)
(* (timestamp, blob id, offset).  A read started when the reference answer *)
(* was r0 may return r0 or any reference answer produced by a later commit *)
(* on its key before it responds: "never older than everything             *)
(* acknowledged before it started, never a value that was not written".    *)
(* An acknowledged write must have committed exactly once, a delete as     *)
(* many times as the count it returned; no two records share a position.   *)
(* At quiescence (`final` events) the storage equals the reference store.  *)
(***************************************************************************)
EXTENDS Naturals, Integers, Sequences, FiniteSets, TLC, Json, IOUtils

Lines == ndJsonDeserialize(IOEnv.TRACE)

VARIABLES l, recs, pend

E == Lines[l]

Res(t, n) == [t |-> t, n |-> n]

\* rank: greatest timestamp, then most recently created blob, then most recently appended
Above(x, y) == \/ x.ts > y.ts
               \/ x.ts = y.ts /\ x.b > y.b
               \/ x.ts = y.ts /\ x.b = y.b /\ x.off > y.off
Top(rs, k) == LET own == {r \in rs : r.k = k} IN
              IF own = {} THEN [none |-> TRUE]
              ELSE LET t == CHOOSE t \in own : \A o \in own \ {t} : Above(t, o) IN
                   [none |-> FALSE, ts |-> t.ts, del |-> t.del, v |-> t.v]
\* kind "read": Found carries the value id; kind "contains": Found carries the timestamp
RefRes(rs, k, kind) ==
  LET t == Top(rs, k) IN
  IF t.none THEN Res("N", 0)
  ELSE IF t.del THEN Res("D", t.ts)
  ELSE IF kind = "read" THEN Res("F", t.v) ELSE Res("F", t.ts)

IsQuery(op) == op \in {"read", "contains"}

Consume ==
  CASE E.ev = "reset" -> recs' = {} /\ pend' = [x \in {} |-> 0]
    [] E.ev = "inv" ->
         /\ E.opid \notin DOMAIN pend
         /\ pend' = pend @@ (E.opid :> [op |-> E.op, k |-> E.k, ts |-> E.ts, commits |-> 0,
                                        cand |-> IF IsQuery(E.op) THEN {RefRes(recs, E.k, E.op)} ELSE {}])
         /\ UNCHANGED recs
    [] E.ev = "commit" ->
         \* belongs to a pending mutation of the same key / timestamp / kind, at a fresh position
         /\ E.opid \in DOMAIN pend
         /\ pend[E.opid].op = (IF E.del = 1 THEN "delete" ELSE "write")
         /\ pend[E.opid].k = E.k /\ pend[E.opid].ts = E.ts
         /\ ~\E r \in recs : r.b = E.b /\ r.off = E.off
         /\ LET nr == recs \cup {[k |-> E.k, ts |-> E.ts, del |-> E.del = 1, v |-> E.opid, b |-> E.b, off |-> E.off]} IN
            /\ recs' = nr
            /\ pend' = [o \in DOMAIN pend |->
                          IF o = E.opid THEN [pend[o] EXCEPT !.commits = @ + 1]
                          ELSE IF IsQuery(pend[o].op) /\ pend[o].k = E.k
                          THEN [pend[o] EXCEPT !.cand = @ \cup {RefRes(nr, E.k, pend[o].op)}]
                          ELSE pend[o]]
    [] E.ev = "resp" ->
         /\ E.opid \in DOMAIN pend
         /\ LET p == pend[E.opid] IN
            CASE IsQuery(p.op) -> Res(E.rt, E.rn) \in p.cand
              [] p.op = "write" -> (E.rt = "ok" /\ p.commits = 1) \/ (E.rt = "err" /\ p.commits = 0)
              [] p.op = "delete" -> (E.rt = "cnt" /\ p.commits = E.rn) \/ (E.rt = "err")
              [] OTHER -> FALSE
         /\ pend' = [o \in DOMAIN pend \ {E.opid} |-> pend[o]]
         /\ UNCHANGED recs
    [] E.ev = "final" ->   \* quiescence: nothing pending, the storage answers like the reference store
         /\ DOMAIN pend = {}
         /\ Res(E.rt, E.rn) = RefRes(recs, E.k, E.op)
         /\ UNCHANGED <<recs, pend>>
    [] OTHER -> UNCHANGED <<recs, pend>>

TraceInit == l = 1 /\ recs = {} /\ pend = [x \in {} |-> 0]
TraceNext == l <= Len(Lines) /\ l' = l + 1 /\ Consume
TraceSpec == TraceInit /\ [][TraceNext]_<<l, recs, pend>>

TraceAccepted ==
  LET d == TLCGet("stats").diameter IN
  IF d - 1 >= Len(Lines) THEN TRUE
  ELSE Print(<<"TRACE-REJECTED", d, ToJson(Lines[d])>>, FALSE)
=============================================================================
