------------------------------ MODULE TraceConc ------------------------------
(***************************************************************************)
(* Trace validation of concurrent executions (C08).  The trace contains,   *)
(* in the order of one global atomic counter, the invocation and response  *)
(* of every client call and the commit event of every append, emitted by   *)
(* the storage under the blob lock right after the record was indexed      *)
(* (linearization point of the mutation; a delete that marks several blobs *)
(* commits several times).                                                 *)
(*                                                                         *)
(* The reference store is the set of committed records ranked by           *)
(* (timestamp, blob id, offset).  A completed read must be explained as    *)
(* the property states it: the record it returns was committed for that    *)
(* key before the read responded ("never a value that was not written")    *)
(* and does not rank below the first-ranked record among the writes and    *)
(* deletes acknowledged before the read was invoked ("never older than     *)
(* all writes acknowledged before it started"); NotFound only if nothing   *)
(* had been acknowledged for the key.  This is deliberately the property's *)
(* own criterion and not strict linearizability: a read visits the active *)
(* blob and then the closed blobs without a common snapshot, and a run was *)
(* observed (DESIGN 10.5) whose answer is no single-point answer although  *)
(* it satisfies both clauses.                                              *)
(* An acknowledged write must have committed exactly once, a delete as     *)
(* many times as the count it returned; no two records share a position.   *)
(* At quiescence (`final` events) the storage equals the reference store.  *)
(***************************************************************************)
EXTENDS Naturals, Integers, Sequences, FiniteSets, TLC, Json, IOUtils

Lines == ndJsonDeserialize(IOEnv.TRACE)

VARIABLES l, recs, pend, acked,
          ord,    \* blob id |-> position in the storage's blob order (the order of becoming the active blob)
          nord    \* next position

E == Lines[l]

Res(t, n) == [t |-> t, n |-> n]

\* rank: greatest timestamp, then the blob that is later in the storage's blob order, then most recently appended.
\* The blob order is the order of activation; it is the order of the ids except when the worker installs a blob whose
\* file it had created before a client created (and later closed or lost to this replacement) a newer one. A new
\* session orders the blobs by id again (`reopen`).
Pos(b) == IF b \in DOMAIN ord THEN ord[b] ELSE b
Above(x, y) == \/ x.ts > y.ts
               \/ x.ts = y.ts /\ Pos(x.b) > Pos(y.b)
               \/ x.ts = y.ts /\ x.b = y.b /\ x.off > y.off
Top(rs, k) == LET own == {r \in rs : r.k = k} IN
              IF own = {} THEN [none |-> TRUE]
              ELSE LET t == CHOOSE t \in own : \A o \in own \ {t} : Above(t, o) IN
                   [none |-> FALSE, ts |-> t.ts, del |-> t.del, v |-> t.v]
\* kind "read": Found carries the value id; kind "contains": Found carries the timestamp
RefRes(rs, k, kind) ==
  LET t == Top(rs, k) IN
  IF t.none THEN Res("N", 0)
  ELSE IF t.del THEN Res("D", t.ts)
  ELSE IF kind = "read" THEN Res("F", t.v) ELSE Res("F", t.ts)

IsQuery(op) == op \in {"read", "contains"}

\* first-ranked record of key k among the operations acknowledged so far (the floor of a read)
Floor(k) == LET own == {r \in recs : r.k = k /\ r.v \in acked} IN
            IF own = {} THEN [none |-> TRUE, ts |-> 0, b |-> 0, off |-> 0]
            ELSE LET t == CHOOSE t \in own : \A o \in own \ {t} : Above(t, o) IN
                 [none |-> FALSE, ts |-> t.ts, b |-> t.b, off |-> t.off]
NoFloor == [none |-> TRUE, ts |-> 0, b |-> 0, off |-> 0]
NotBelow(r, fl) == fl.none \/ (r.ts = fl.ts /\ r.b = fl.b /\ r.off = fl.off) \/ Above(r, fl)

\* the answer of a completed query is explained by a committed record that is not below the floor
Explained(p, rt, rn) ==
  CASE rt = "N" -> p.floor.none
    [] rt = "D" -> \E r \in recs : r.k = p.k /\ r.del /\ r.ts = rn /\ NotBelow(r, p.floor)
    [] rt = "F" /\ p.op = "read" -> \E r \in recs : r.k = p.k /\ ~r.del /\ r.v = rn /\ NotBelow(r, p.floor)
    [] rt = "F" /\ p.op = "contains" -> \E r \in recs : r.k = p.k /\ ~r.del /\ r.ts = rn /\ NotBelow(r, p.floor)
    [] OTHER -> FALSE

Consume ==
  CASE E.ev = "reset" -> recs' = {} /\ pend' = [x \in {} |-> 0] /\ acked' = {} /\ ord' = [x \in {} |-> 0] /\ nord' = 0
    [] E.ev = "inv" ->
         /\ E.opid \notin DOMAIN pend
         /\ pend' = pend @@ (E.opid :> [op |-> E.op, k |-> E.k, ts |-> E.ts, commits |-> 0,
                                        floor |-> IF IsQuery(E.op) THEN Floor(E.k) ELSE NoFloor])
         /\ UNCHANGED <<recs, acked, ord, nord>>
    [] E.ev = "commit" ->
         \* belongs to a pending mutation of the same key / timestamp / kind, at a fresh position
         /\ E.opid \in DOMAIN pend
         /\ pend[E.opid].op = (IF E.del = 1 THEN "delete" ELSE "write")
         /\ pend[E.opid].k = E.k /\ pend[E.opid].ts = E.ts
         /\ ~\E r \in recs : r.b = E.b /\ r.off = E.off
         /\ LET nr == recs \cup {[k |-> E.k, ts |-> E.ts, del |-> E.del = 1, v |-> E.opid, b |-> E.b, off |-> E.off]} IN
            /\ recs' = nr
            /\ pend' = [pend EXCEPT ![E.opid].commits = @ + 1]
            /\ UNCHANGED <<acked, ord, nord>>
    [] E.ev = "resp" ->
         /\ E.opid \in DOMAIN pend
         /\ LET p == pend[E.opid] IN
            CASE IsQuery(p.op) -> Explained(p, E.rt, E.rn)
              [] p.op = "write" -> (E.rt = "ok" /\ p.commits = 1) \/ (E.rt = "err" /\ p.commits = 0)
              [] p.op = "delete" -> (E.rt = "cnt" /\ p.commits = E.rn) \/ (E.rt = "err")
              [] OTHER -> FALSE
         /\ pend' = [o \in DOMAIN pend \ {E.opid} |-> pend[o]]
         /\ acked' = acked \cup {E.opid}
         /\ UNCHANGED <<recs, ord, nord>>
    [] E.ev = "final" ->   \* quiescence: nothing pending, the storage answers like the reference store
         /\ DOMAIN pend = {}
         /\ Res(E.rt, E.rn) = RefRes(recs, E.k, E.op)
         /\ UNCHANGED <<recs, pend, acked, ord, nord>>
    [] E.ev = "activate" ->
         /\ ord' = [b \in DOMAIN ord \cup {E.b} |-> IF b = E.b THEN nord ELSE ord[b]] /\ nord' = nord + 1
         /\ UNCHANGED <<recs, pend, acked>>
    [] E.ev = "reopen" ->
         /\ ord' = [b \in DOMAIN ord |-> b]
         /\ nord' = (IF DOMAIN ord = {} THEN 0 ELSE (CHOOSE m \in DOMAIN ord : \A x \in DOMAIN ord : x <= m) + 1)
         /\ UNCHANGED <<recs, pend, acked>>
    [] OTHER -> UNCHANGED <<recs, pend, acked, ord, nord>>

TraceInit == l = 1 /\ recs = {} /\ pend = [x \in {} |-> 0] /\ acked = {} /\ ord = [x \in {} |-> 0] /\ nord = 0
TraceNext == l <= Len(Lines) /\ l' = l + 1 /\ Consume
TraceSpec == TraceInit /\ [][TraceNext]_<<l, recs, pend, acked, ord, nord>>

TraceAccepted ==
  LET d == TLCGet("stats").diameter IN
  IF d - 1 >= Len(Lines) THEN TRUE
  ELSE Print(<<"TRACE-REJECTED", d, ToJson(Lines[d])>>, FALSE)
=============================================================================
