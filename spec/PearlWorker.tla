----------------------------- MODULE PearlWorker -----------------------------
(***************************************************************************)
(* The loop of the background worker (src/storage/observer_worker.rs):     *)
(* requests arrive through a channel; index dumps of closed blobs run in   *)
(* one background task at a time; a dump wanted after a deletion in a      *)
(* closed blob is deferred (debounced) and fired by a deadline.            *)
(*                                                                         *)
(*   run loop        : tick (plain recv) when no deadline is armed,        *)
(*                     tick_with_deadline (recv raced with the timer)      *)
(*   "defer"         : DeferredDumpBlobIndexes  (delete into a closed blob)*)
(*   "dump"          : TryDumpBlobIndexes       (the active blob was closed)*)
(*   process_deferred: when the deferred dump is due, start the dump task; *)
(*                     when a task is still running, defer once more       *)
(*   dump task       : Safe::try_dump_old_blob_indexes - walks the closed  *)
(*                     blobs once, front to back, never revisits a blob    *)
(*                     (current_progress), releases the locks between time *)
(*                     quanta so that deletes can get in behind it         *)
(*                                                                         *)
(* Time is abstracted: an armed deadline may fire at any moment, and the   *)
(* deferred dump is then due or not yet due (because a later request moved *)
(* last_time).  One blob per task step, and other steps may interleave     *)
(* between any two task steps (the code allows this only when a time       *)
(* quantum ran out, i.e. with slow I/O: an over-approximation of the       *)
(* schedules, exact in the set of reachable worker states).                *)
(*                                                                         *)
(* C13 ("requested index dumps still complete"): when nothing is left to   *)
(* run - no message, no armed deadline, no task - no closed blob is left   *)
(* with an index that was asked to be dumped.                              *)
(*                                                                         *)
(* Named deviations:                                                       *)
(*   RearmOnBusy  - TRUE (required): deferring once more because a task is *)
(*                  running re-arms the deadline; FALSE is the code as     *)
(*                  found (finding F19: the worker then waits in plain     *)
(*                  recv with the deferred dump registered for ever)       *)
(*   ResetBeforeProcess - TRUE (the code): the fired deadline is cleared   *)
(*                  before process_deferred runs, so a re-armed deadline   *)
(*                  survives; FALSE clears it afterwards                   *)
(***************************************************************************)
EXTENDS Naturals, Sequences, FiniteSets, TLC

CONSTANTS NBlobs,        \* closed blobs 1..NBlobs, in list order
          MaxReq,        \* client requests explored
          RearmOnBusy, ResetBeforeProcess

VARIABLES chan,      \* messages in the channel
          dirty,     \* closed blobs whose index is in memory after a deletion (deferred dump requested)
          fresh,     \* TRUE: the last closed blob was just closed and waits for its first dump ("dump" requested)
          deferred,  \* deferred_index_dump_info.is_some()
          deadline,  \* next_deadline.is_some()
          task,      \* "none" | "run" | "exiting" (future returned, JoinHandle not finished yet) | "finished"
          progress,  \* blobs the running task has passed
          reqs

wvars == <<chan, dirty, fresh, deferred, deadline, task, progress, reqs>>

Blobs == 1..NBlobs

WInit == chan = <<>> /\ dirty = {} /\ fresh = FALSE /\ deferred = FALSE /\ deadline = FALSE /\ task = "none" /\ progress = 0 /\ reqs = 0

\* ---- clients -----------------------------------------------------------------------------
\* delete of a key that lives in closed blob b: the index goes back to memory, a deletion
\* marker is appended, the deferred dump is requested
DeleteInClosed(b) ==
  /\ reqs < MaxReq /\ reqs' = reqs + 1
  /\ dirty' = dirty \cup {b} /\ chan' = Append(chan, "defer")
  /\ UNCHANGED <<fresh, deferred, deadline, task, progress>>
\* the active blob was closed: it is the last closed blob now and wants its index dumped
CloseActive ==
  /\ reqs < MaxReq /\ reqs' = reqs + 1
  /\ fresh' = TRUE /\ chan' = Append(chan, "dump")
  /\ UNCHANGED <<dirty, deferred, deadline, task, progress>>

\* a write filled the active blob: the worker is asked to switch it
Overflow ==
  /\ reqs < MaxReq /\ reqs' = reqs + 1
  /\ chan' = Append(chan, "update")
  /\ UNCHANGED <<dirty, fresh, deferred, deadline, task, progress>>

\* ---- worker ------------------------------------------------------------------------------
TaskBusy == task \in {"run", "exiting"}          \* !task.is_finished()
\* try_run_old_blob_indexes_dump_task, as a relation on (task, progress)
Started == task' = "run" /\ progress' = 0

\* defer_blob_indexes_dump
Defer == deferred' = TRUE /\ deadline' = TRUE

\* effect of one message on (deferred, deadline, task, progress)
MsgDefer == Defer /\ UNCHANGED <<task, progress>>
MsgDump  == IF TaskBusy THEN UNCHANGED <<task, progress, deferred, deadline>>     \* request dropped
            ELSE Started /\ UNCHANGED <<deferred, deadline>>
\* TryUpdateActiveBlob that did switch the active blob: attach to a registered deferred dump,
\* otherwise dump now, or defer when a task is running
MsgUpdateSwitched ==
  IF deferred \/ TaskBusy THEN MsgDefer ELSE Started /\ UNCHANGED <<deferred, deadline>>

WRecv ==
  /\ chan # <<>> /\ chan' = Tail(chan)
  /\ CASE Head(chan) = "defer"  -> MsgDefer /\ UNCHANGED fresh
       [] Head(chan) = "dump"   -> MsgDump /\ UNCHANGED fresh
       [] Head(chan) = "update" -> \* the worker closes the active blob itself (or finds nothing to switch)
                                   \/ MsgUpdateSwitched /\ fresh' = TRUE
                                   \/ UNCHANGED <<deferred, deadline, task, progress, fresh>>
  /\ UNCHANGED <<dirty, reqs>>

\* the deadline fires (tick_with_deadline, timeout branch) and process_deferred runs:
\* the four outcomes as relations on (deferred, deadline, task, progress)
TimerNothing == ~deferred /\ deadline' = FALSE /\ UNCHANGED <<deferred, task, progress>>
\* not due yet: the deadline is armed again (cleared afterwards = the re-armed one is lost)
TimerNotDue  == deferred /\ deadline' = ResetBeforeProcess /\ UNCHANGED <<deferred, task, progress>>
TimerDueBusy == deferred /\ TaskBusy /\ deferred' = TRUE /\ deadline' = (RearmOnBusy /\ ResetBeforeProcess)
                /\ UNCHANGED <<task, progress>>
TimerDueStart == deferred /\ ~TaskBusy /\ deferred' = FALSE /\ deadline' = FALSE /\ Started

WTimer ==
  /\ deadline
  /\ (TimerNothing \/ TimerNotDue \/ TimerDueBusy \/ TimerDueStart)
  /\ UNCHANGED <<chan, dirty, fresh, reqs>>

\* ---- the dump task ---------------------------------------------------------------------
TStep ==
  /\ task = "run"
  /\ IF progress < NBlobs
     THEN /\ progress' = progress + 1 /\ dirty' = dirty \ {progress + 1}
          /\ fresh' = (fresh /\ progress + 1 # NBlobs) /\ UNCHANGED task
     ELSE task' = "exiting" /\ UNCHANGED <<progress, dirty, fresh>>
  /\ UNCHANGED <<chan, deferred, deadline, reqs>>
TFinish ==
  /\ task = "exiting" /\ task' = "finished"
  /\ UNCHANGED <<chan, dirty, fresh, deferred, deadline, progress, reqs>>

Idle == chan = <<>> /\ ~deadline /\ task \in {"none", "finished"}
WStutter == Idle /\ UNCHANGED wvars

WNext == (\E b \in Blobs : DeleteInClosed(b)) \/ CloseActive \/ Overflow \/ WRecv \/ WTimer \/ TStep \/ TFinish \/ WStutter
WSpec == WInit /\ [][WNext]_wvars

\* C13: requested index dumps complete.  DeferredDumpsComplete is about the deferred dumps after
\* deletions; DumpAfterClose about the dump requested when the active blob is closed (a request
\* that arrives while the previous task is between its last blob and JoinHandle::is_finished is
\* dropped: never observed on the code, the window is a few instructions wide)
DeferredDumpsComplete == Idle => dirty = {}
\* hygiene, not demanded by the property: nothing stays registered when the worker sleeps
NoStaleDeferred == Idle => ~deferred
DumpAfterClose == Idle => ~fresh
WTypeOK == task \in {"none", "run", "exiting", "finished"} /\ progress \in 0..NBlobs /\ dirty \subseteq Blobs
=============================================================================
