------------------------------ MODULE TraceIO ------------------------------
(* Trace validation: executions of the real storage, recorded through the    *)
(* cfg(pearl_verif) hooks (I/O tap, linearization-point events) and the      *)
(* driver (API call / return, quiescence), are replayed through PearlIO.     *)
(* Every invariant of PearlIO is evaluated after every event.  The file is   *)
(* NDJSON, one event per line, ordered by the hook's global sequence number; *)
(* several executions are concatenated, each starting with a `reset` event.  *)
EXTENDS PearlIO, Json, IOUtils

Rec == ndJsonDeserialize(IOEnv.TRACE)

VARIABLES l,       \* next event to consume
          crashed, \* the crash image of the last `crash` event: [kind, cuts]
          spoiled  \* blob files the driver made unreadable between two sessions (quarantined or ignored from then on)

E == Rec[l]

IOInit ==
  /\ file = [x \in {} |-> 0] /\ everBlob = {} /\ active = NoBlob /\ limit = 0
  /\ api = "" /\ post = "" /\ postId = NoBlob /\ strict = FALSE

NoCrash == [kind |-> "", cuts |-> <<>>]
TraceInit == IOInit /\ l = 1 /\ crashed = NoCrash /\ spoiled = {}

Quiet == post' = "" /\ postId' = NoBlob

\* operations that write to files
IsWriteEv(e) == e \in {"create", "reserve", "write", "write_done", "write_at", "write_at_done",
                       "truncate", "rename", "remove"}

\* C07: queries perform no writes (judged in strict executions, where nothing runs in the
\* background while the driver queries)
QueryClean == ~(strict /\ api = "query" /\ IsWriteEv(E.ev))
\* C07: an unreadable blob file is set aside (moved to the corrupted directory unchanged, or ignored where it
\* lies): nothing is ever written into it, in particular no new blob takes it over together with its id
SpoiledUntouched == ~(E.ev \in {"reserve", "write", "write_at", "truncate"} /\ E.f \in spoiled)
SpoiledNext ==
  spoiled' = IF E.ev = "reset" THEN {}
             ELSE IF E.ev = "damage" /\ E.k = "blob" THEN spoiled \cup {E.f}
             ELSE IF E.ev = "rename" /\ E.f \in spoiled THEN (spoiled \ {E.f}) \cup {E.f2}
             ELSE spoiled

ConsumeIO ==
  /\ QueryClean /\ SpoiledUntouched
  /\ CASE E.ev = "reset" ->
            /\ file' = [x \in {} |-> 0] /\ everBlob' = {} /\ active' = NoBlob
            /\ limit' = E.a /\ strict' = (E.ok = 1) /\ api' = "" /\ Quiet
       [] E.ev = "create" -> Create(E.f, E.k, E.id, E.loc) /\ Quiet
       [] E.ev = "open" -> OpenExisting(E.f, E.k, E.id, E.loc, E.len) /\ Quiet
       [] E.ev = "reserve" -> Reserve(E.f, E.off, E.len) /\ Quiet
       [] E.ev = "write" -> WriteBegin(E.f, E.off, E.len) /\ Quiet
       [] E.ev = "write_done" -> WriteDone(E.f, E.off, E.len) /\ Quiet
       [] E.ev = "write_at" -> WriteAt(E.f, E.off, E.len, E.w = 1, E.a) /\ Quiet
       [] E.ev = "write_at_done" -> UNCHANGED iovars
       [] E.ev = "sync_begin" -> SyncBegin(E.f, E.a) /\ Quiet
       [] E.ev = "sync" -> SyncCall(E.f, E.a) /\ Quiet
       [] E.ev = "sync_end" -> SyncEnd(E.f, E.a) /\ Quiet
       [] E.ev = "truncate" -> Truncate(E.f) /\ Quiet
       [] E.ev = "rename" -> Rename(E.f, E.f2) /\ Quiet
       [] E.ev = "remove" -> Remove(E.f) /\ Quiet
       [] E.ev = "damage" ->   \* the driver damaged a file between two sessions: what the model knew
                               \* about it (and, for a blob, about the index describing it) is void
            /\ file' = [x \in DOMAIN file \ (IF E.k = "blob" THEN {E.f, "i" \o ToString(E.id)} ELSE {E.f}) |-> file[x]] /\ Quiet
            /\ UNCHANGED <<everBlob, active, limit, api, strict>>
       [] E.ev = "append" -> Appended(E.f, E.off, E.len) /\ Quiet
       [] E.ev \in {"active_set", "active_restored", "active_replaced", "active_init"} -> SetActive(E.id) /\ Quiet
       [] E.ev = "active_closed" -> SetActive(NoBlob) /\ Quiet
       [] E.ev = "call" ->
            /\ api' = E.op /\ Quiet
            /\ UNCHANGED <<file, everBlob, active, limit, strict>>
       [] E.ev = "ret" ->
            /\ api' = ""
            /\ post' = IF E.ok = 1 /\ E.op = "fsync" THEN "fsync"
                       ELSE IF E.ok = 1 /\ E.op \in {"close_active", "close"} THEN "closed" ELSE ""
            /\ postId' = IF E.op \in {"close_active", "close"} THEN E.id ELSE NoBlob
            /\ UNCHANGED <<file, everBlob, active, limit, strict>>
       [] E.ev = "quiescent" ->
            /\ post' = "quiescent" /\ postId' = NoBlob
            /\ UNCHANGED <<file, everBlob, active, limit, api, strict>>
       [] OTHER -> UNCHANGED iovars   \* dumped, loaded, worker_begin / end / exit: no effect here

\* C06: a crash image and what the real `init` recovered from it
Consume ==
  IF E.ev = "crash"
  THEN /\ ImageAllowed(E.op, E.cuts)
       /\ crashed' = [kind |-> E.op, cuts |-> E.cuts]
       /\ UNCHANGED iovars
  ELSE IF E.ev = "recovered"
  THEN /\ RecoveryOK(crashed.kind, crashed.cuts, E.served, E.quar, E.restored)
       /\ UNCHANGED <<iovars, crashed>>
  ELSE ConsumeIO /\ crashed' = IF E.ev = "reset" THEN NoCrash ELSE crashed

TraceNext == l <= Len(Rec) /\ l' = l + 1 /\ Consume /\ SpoiledNext

TraceSpec == TraceInit /\ [][TraceNext]_<<iovars, l, crashed, spoiled>>

\* the whole trace was consumed; otherwise report the first event that no action explains
TraceAccepted ==
  LET d == TLCGet("stats").diameter IN
  IF d - 1 = Len(Rec) THEN TRUE
  ELSE Print(<<"TRACE-REJECTED", d, ToJson(Rec[d])>>, FALSE)
=============================================================================
