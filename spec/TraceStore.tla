----------------------------- MODULE TraceStore -----------------------------
(***************************************************************************)
(* Trace validation against PearlStore: executions of the real storage     *)
(* (calls with their results and the answers observed afterwards), as      *)
(* recorded by the drivers, are replayed through the actions of            *)
(* PearlStore.  Used where the driver is not a replay of a TLC-generated   *)
(* behaviour: injected I/O faults (C11), dropped futures (C14), long       *)
(* random runs (C01 / C02), final states of concurrent runs (C08).         *)
(*                                                                         *)
(* One NDJSON line per step:                                               *)
(*   ev   : "reset" | "step"                                               *)
(*   a,k,ts,m,f,s : the action as in PearlStore.Act                        *)
(*   rt,rn: the observed result (ResJ t / n)                               *)
(*   mode : "normal" - the call must be the specification's action with    *)
(*                     exactly this result;                                *)
(*          "failed" - the call returned an error under an injected fault: *)
(*                     it must not have taken effect (C11);                *)
(*          "degraded" - a fault was injected during the call, which still *)
(*                     returned success (background work, swallowed        *)
(*                     errors): the specified effect, or for deletes the   *)
(*                     markers of a sub-set of the blobs;                  *)
(*          "maybe"  - the future of the call was dropped (C14): entirely  *)
(*                     or not at all                                       *)
(*   obs  : per key [r, c, all, w, has] as observed, "records" total;      *)
(*          has_obs = 0 when nothing was observed after this step          *)
(***************************************************************************)
EXTENDS PearlStore, Json, IOUtils

Lines == ndJsonDeserialize(IOEnv.TRACE)

VARIABLE l

E == Lines[l]

\* ---- comparison of an observation with the reference layer of a state --------------------
ResEq(j, r) == j.t = r.t /\ j.n = r.n
AllEq(j, s) == Len(j) = Len(s) /\ \A i \in 1..Len(s) :
                  j[i][1] = s[i][1] /\ j[i][2] = s[i][2] /\ (s[i][2] = 1 \/ j[i][3] = s[i][3])
KeyEq(j, o) ==
  /\ ResEq(j.r, o.r) /\ ResEq(j.c, o.c) /\ AllEq(j.all, o.all)
  /\ ResEq(j.w0, o.w[0]) /\ ResEq(j.w1, o.w[1]) /\ ResEq(j.w2, o.w[2])

\* primed store = what the specification says; compared with what was observed
ObsOK ==
  E.has_obs = 0 \/
  LET sn == [bl |-> blob', a |-> active', sl |-> slots', nid |-> nextId', q |-> quar', w |-> worker']
      lv == LiveOf(sn.a, sn.sl)
  IN  /\ \A k \in Keys : KeyEq(E.obs.keys[k], KeyObsIn(sn.bl, lv, k))
      /\ (E.obs.records >= 0 => E.obs.records = SumLen(sn.bl, lv))

RetOK == ret'.t = E.rt /\ (E.rt # "cnt" \/ ret'.n = E.rn)

\* blobs holding bytes of a dropped operation that were never indexed; a start-up that rebuilds
\* the index of such a blob from the file reveals them, one that loads a valid index does not
HiddenBlobs == {b \in Ids : \E i \in DOMAIN blob[b].recs : blob[b].recs[i].hid}
Reveal(rv) ==
  [b \in Ids |->
     IF b \in rv THEN [blob[b] EXCEPT !.recs = [i \in DOMAIN @ |-> [@[i] EXCEPT !.hid = FALSE]], !.ifcnt = -1]
     ELSE IF b \in HiddenBlobs THEN [blob[b] EXCEPT !.ifcnt = Len(blob[b].recs)]
     ELSE blob[b]]

\* the bytes of a dropped write / delete reach the file although the call never indexed them
HideIn(bl, targets, r) ==
  [b \in DOMAIN bl |-> IF b \in targets THEN [bl[b] EXCEPT !.recs = Append(@, [r EXCEPT !.hid = TRUE])] ELSE bl[b]]
Deferred ==
  /\ E.a \in {"write", "delete"}
  /\ LET created == active = None /\ (E.a = "write" \/ E.f # 1)
         a1   == IF created THEN nextId ELSE active
         bl1  == IF created THEN WithNew(blob, nextId) ELSE blob
         cands == IF E.a = "write" THEN {{a1}}
                  ELSE {S \in SUBSET ((IF a1 = None THEN {} ELSE {a1}) \cup Closed) : TRUE}
     IN  \E S \in cands :
           /\ blob' = HideIn(bl1, S, Rec(E.k, E.ts, E.a = "delete", E.m, opn + 1, E.s))
           /\ active' = a1 /\ nextId' = IF created THEN nextId + 1 ELSE nextId
           /\ usedIds' = IF a1 = None THEN usedIds ELSE usedIds \cup {a1}
           /\ opn' = opn + 1
           /\ UNCHANGED <<slots, quar, worker, agedIds, act, ret>>

\* the specification's action named by the event
Do ==
  CASE E.a = "write"  -> Write(E.k, E.ts, E.m, E.s)
    [] E.a = "delete" -> Delete(E.k, E.ts, E.m, E.f = 1)
    [] E.a = "close_active"   -> CloseActive
    [] E.a = "create_active"  -> CreateActive
    [] E.a = "restore_active" -> RestoreActive
    [] E.a = "force_update"   -> ForceUpdate(E.s)
    [] E.a = "close_bg"       -> CloseBg
    [] E.a = "create_bg"      -> CreateBg
    [] E.a = "restore_bg"     -> RestoreBg
    [] E.a = "free_excess"    -> FreeExcess
    [] E.a = "fsync"          -> Fsync
    [] E.a = "age"            -> Age
    [] E.a = "restart"        -> \E d \in {"keep", "lose"}, rv \in SUBSET HiddenBlobs :
                                    RestartLB(Reveal(rv), E.f % 2 = 1, (E.f \div 2) % 2 = 1, [b \in Ids |-> d], E.s)
    [] OTHER -> FALSE

\* a call that failed: nothing of it is visible.  (Bookkeeping that no query shows - a
\* consumed blob id, a freshly created empty active blob - is allowed.)
\* (the driver numbers every data call, also a failed one: the value id is consumed)
OpnAfterFailure == opn' = IF E.a \in {"write", "delete"} THEN opn + 1 ELSE opn
NoEffect ==
  \/ /\ UNCHANGED <<blob, active, slots, nextId, usedIds, quar, worker, agedIds, act, ret>>
     /\ OpnAfterFailure
  \/ /\ E.a \in {"write", "delete", "create_active", "force_update"}
     /\ active = None
     /\ blob' = WithNew(blob, nextId) /\ active' = nextId /\ nextId' = nextId + 1
     /\ usedIds' = usedIds \cup {nextId}
     /\ OpnAfterFailure
     /\ UNCHANGED <<slots, quar, worker, agedIds, act, ret>>
  \/ /\ E.a \in {"write", "delete", "create_active", "force_update"}
     /\ nextId' = nextId + 1 /\ usedIds' = usedIds \cup {nextId}
     /\ OpnAfterFailure
     /\ UNCHANGED <<blob, active, slots, quar, worker, agedIds, act, ret>>

\* a delete during which a fault was injected and which still returned a count: the markers
\* of any sub-set of the specified blobs (failures in closed blobs are logged, not returned)
PartialDelete ==
  /\ E.a = "delete"
  /\ LET created == active = None /\ E.f # 1
         a1   == IF created THEN nextId ELSE active
         bl1  == IF created THEN WithNew(blob, nextId) ELSE blob
         inAct == IF a1 # None /\ (E.f # 1 \/ LocallyLiveIn(bl1, a1, E.k)) THEN {a1} ELSE {}
         inCl  == {b \in Closed : LocallyLiveIn(bl1, b, E.k)}
     IN  \E sub \in SUBSET inCl :
           /\ blob' = AppendMarkers(bl1, inAct \cup sub, Rec(E.k, E.ts, TRUE, E.m, opn + 1, "z"))
           /\ active' = a1 /\ nextId' = IF created THEN nextId + 1 ELSE nextId
           /\ usedIds' = IF a1 = None THEN usedIds ELSE usedIds \cup {a1}
           /\ E.rn = Cardinality(inAct \cup sub)
           /\ opn' = opn + 1
           /\ UNCHANGED <<slots, quar, worker, agedIds, act, ret>>

\* a delete whose future was dropped after it had marked some blobs: the active blob is marked
\* first, so any later answer is the one of a complete delete (the active marker outranks the
\* missing ones) - only accounting could tell the difference, and accounting is not judged
CancelledDelete ==
  /\ E.a = "delete"
  /\ LET created == active = None /\ E.f # 1
         a1   == IF created THEN nextId ELSE active
         bl1  == IF created THEN WithNew(blob, nextId) ELSE blob
         inAct == IF a1 # None /\ (E.f # 1 \/ LocallyLiveIn(bl1, a1, E.k)) THEN {a1} ELSE {}
         inCl  == {b \in Closed : LocallyLiveIn(bl1, b, E.k)}
     IN  \E sub \in SUBSET inCl :
           /\ blob' = AppendMarkers(bl1, inAct \cup sub, Rec(E.k, E.ts, TRUE, E.m, opn + 1, "z"))
           /\ active' = a1 /\ nextId' = IF created THEN nextId + 1 ELSE nextId
           /\ usedIds' = IF a1 = None THEN usedIds ELSE usedIds \cup {a1}
           /\ opn' = opn + 1
           /\ UNCHANGED <<slots, quar, worker, agedIds, act, ret>>

Step ==
  CASE E.mode = "normal"   -> Do /\ RetOK
    [] E.mode = "failed"   -> NoEffect
    [] E.mode = "degraded" -> (Do /\ RetOK) \/ PartialDelete
                              \/ (E.a \notin {"write", "delete"} /\ NoEffect)   \* background work failed and was logged
    [] E.mode = "maybe"    -> Do \/ NoEffect \/ CancelledDelete \/ Deferred
    [] OTHER -> FALSE

Consume ==
  IF E.ev = "reset"
  THEN /\ blob' = (0 :> NewBlob) /\ active' = 0 /\ slots' = <<>> /\ nextId' = 1
       /\ usedIds' = {0} /\ quar' = {} /\ worker' = "running" /\ agedIds' = {} /\ opn' = 0
       /\ act' = Act("init", 0, 0, 0, 0, "") /\ ret' = Ok
  ELSE Step /\ ObsOK

TraceInit == Init /\ l = 1
TraceNext == l <= Len(Lines) /\ l' = l + 1 /\ Consume
TraceSpec == TraceInit /\ [][TraceNext]_<<vars, l>>

\* with branching (rotation of a blob of unknown age, partial deletes, restarts) the search is
\* depth-first; the deepest level reached is the longest matched prefix
TraceAccepted ==
  LET d == TLCGet("stats").diameter IN
  IF d - 1 >= Len(Lines) THEN TRUE
  ELSE Print(<<"TRACE-REJECTED", d, ToJson(Lines[d])>>, FALSE)
=============================================================================
