------------------------------ MODULE PearlBytes ------------------------------
(***************************************************************************)
(* C05, second half: what a reader may see when the stored DATA bytes of   *)
(* one record were altered on disk (1 bit .. 32-bit burst, so that the     *)
(* record's CRC32C cannot match), depending on how the record is reached:  *)
(*                                                                         *)
(*   index: "mem"      the blob's index is in memory (active blob)         *)
(*          "disk"     the index was dumped (closed blob)                  *)
(*          "regen"    restart without a usable index file, data not       *)
(*                     validated while the index is rebuilt                *)
(*          "regenval" the same with validate_data_during_index_regen      *)
(*          "reopen"   restart WITH the valid index file of the closed blob *)
(*                     (nothing is scanned, so nothing is validated at      *)
(*                     start-up, whatever the configuration says)           *)
(*          "reopenval" the same with validate_data_during_index_regen on   *)
(*   pos:   "only" / "first" / "middle" / "last" record of its blob        *)
(*   size:  size class of the damaged record's data: "s" (tens of bytes),   *)
(*          "e4k" (the record just fills the single 4 KiB write buffer),     *)
(*          "e80k" (one byte beyond the in-place I/O threshold), "big"       *)
(*          (200 KiB: several 64 KiB blocks and a remainder)                 *)
(*                                                                         *)
(* Allowed outcomes for the damaged record: an error from read, or the     *)
(* whole blob set aside (quarantined) at start-up; never bytes.  Allowed   *)
(* for the other records of the blob: served with their bytes, or set      *)
(* aside together with the blob.  Records of other blobs: always served.   *)
(***************************************************************************)
EXTENDS Naturals, FiniteSets, TLC, Json

VARIABLES index, pos, nrec, size

Indexes == {"mem", "disk", "regen", "regenval", "reopen", "reopenval"}
Positions == {"only", "first", "middle", "last"}
SizeClasses == {"s", "e4k", "e80k", "big"}

\* is the data checksum evaluated before the storage starts serving?
CheckedAtStart == index = "regenval"

Damaged == IF CheckedAtStart THEN {"quarantined"} ELSE {"error"}
SameBlob == IF CheckedAtStart THEN {"quarantined"} ELSE {"served"}
OtherBlob == {"served"}

BInit == index \in Indexes /\ pos \in Positions /\ nrec \in 1..3 /\ size \in SizeClasses
         /\ (pos = "only") = (nrec = 1) /\ (pos = "middle" => nrec = 3)
BNext == UNCHANGED <<index, pos, nrec, size>>
BSpec == BInit /\ [][BNext]_<<index, pos, nrec, size>>

\* the property: altered bytes are never returned as a successful read
NeverServed == "served" \notin Damaged /\ Damaged # {}
\* damage is contained: another blob is never affected, the same blob only as a whole
Contained == OtherBlob = {"served"} /\ (("quarantined" \in SameBlob) => ("quarantined" \in Damaged))

EmitBytesCase == PrintT(<<"BYTECASE", ToJson([index |-> index, pos |-> pos, nrec |-> nrec, size |-> size,
                                               damaged |-> Damaged, same |-> SameBlob, other |-> OtherBlob])>>)
=============================================================================
