------------------------------ MODULE PearlBytes ------------------------------
(***************************************************************************)
(* C05, second half: what a reader may see when the stored DATA bytes of   *)
(* one record were altered on disk (1 bit .. 32-bit burst, so that the     *)
(* record's CRC32C cannot match), depending on how the record is reached:  *)
(*                                                                         *)
(*   index: "mem"      the blob's index is in memory (active blob)         *)
(*          "disk"     the index was dumped (closed blob)                  *)
(*          "regen"    restart without a usable index file, data not       *)
(*                     validated while the index is rebuilt                *)
(*          "regenval" the same with validate_data_during_index_regen      *)
(*          "reopen"   restart WITH the valid index file of the closed blob *)
(*                     (nothing is scanned, so nothing is validated at      *)
(*                     start-up, whatever the configuration says)           *)
(*          "reopenval" the same with validate_data_during_index_regen on   *)
(*   pos:   "only" / "first" / "middle" / "last" record of its blob        *)
(*                                                                         *)
(* Allowed outcomes for the damaged record: an error from read, or the     *)
(* whole blob set aside (quarantined) at start-up; never bytes.  Allowed   *)
(* for the other records of the blob: served with their bytes, or set      *)
(* aside together with the blob.  Records of other blobs: always served.   *)
(***************************************************************************)
EXTENDS Naturals, FiniteSets, TLC, Json

VARIABLES index, pos, nrec

Indexes == {"mem", "disk", "regen", "regenval", "reopen", "reopenval"}
Positions == {"only", "first", "middle", "last"}

\* is the data checksum evaluated before the storage starts serving?
CheckedAtStart == index = "regenval"

Damaged == IF CheckedAtStart THEN {"quarantined"} ELSE {"error"}
SameBlob == IF CheckedAtStart THEN {"quarantined"} ELSE {"served"}
OtherBlob == {"served"}

BInit == index \in Indexes /\ pos \in Positions /\ nrec \in 1..3
         /\ (pos = "only") = (nrec = 1) /\ (pos = "middle" => nrec = 3)
BNext == UNCHANGED <<index, pos, nrec>>
BSpec == BInit /\ [][BNext]_<<index, pos, nrec>>

\* the property: altered bytes are never returned as a successful read
NeverServed == "served" \notin Damaged /\ Damaged # {}
\* damage is contained: another blob is never affected, the same blob only as a whole
Contained == OtherBlob = {"served"} /\ (("quarantined" \in SameBlob) => ("quarantined" \in Damaged))

EmitBytesCase == PrintT(<<"BYTECASE", ToJson([index |-> index, pos |-> pos, nrec |-> nrec,
                                               damaged |-> Damaged, same |-> SameBlob, other |-> OtherBlob])>>)
=============================================================================
