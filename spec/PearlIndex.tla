----------------------------- MODULE PearlIndex -----------------------------
(***************************************************************************)
(* The on-disk B+tree index of a blob (src/blob/index/bptree): layout      *)
(* produced by the serializer and the lookups of BPTreeFileIndex,          *)
(* transcribed at the granularity of record-header slots and bytes.        *)
(*                                                                         *)
(* Input: a shape `cnt` = number of versions per key, keys in ascending    *)
(* order.  Stored key number i is represented by 2i, so that the odd       *)
(* numbers are absent keys below, between and above.  Every shape is an    *)
(* initial state; the invariant equates every lookup with the in-memory    *)
(* answer (C09).                                                           *)
(*                                                                         *)
(* With KS = 1000 (ArrayKey<1000>) the real code has 3 headers per 4 KiB   *)
(* block and at most 5 children per inner node: the small model constants  *)
(* are pearl's constants for that key type, and the same shapes are        *)
(* replayed through Storage<ArrayKey<1000>> (harness/src/bin/shapes.rs).   *)
(***************************************************************************)
EXTENDS Naturals, Integers, Sequences, FiniteSets, SequencesExt, TLC

CONSTANTS Block,     \* 4096
          KS,        \* key length in bytes
          MaxKeys,   \* shapes have 1..MaxKeys keys
          Runs,      \* allowed numbers of versions per key
          TsPatterns,\* timestamp patterns of the versions of a key: "asc" "desc" "equal" "zigzag"
          DelAts,    \* 0 = no deletion marker; j = the j-th written version of every key is a marker
          Family,    \* "all": every vector over Runs up to MaxKeys keys;
                     \* "perturb": single-version keys, PerturbFrom..MaxKeys of them, one position changed
          PerturbFrom  \* smallest number of keys (both families)

VARIABLES cnt,       \* Seq(Nat \ {0}): versions per key
          pat,       \* timestamp pattern
          delAt,     \* marker position
          chosen     \* FALSE in the placeholder initial states

RH        == 57 + KS                     \* serialized record header
NodeMeta  == 8
Ptr       == 8
MaxAmount == (Block - NodeMeta - Ptr) \div (KS + Ptr) + 1
MinAmount == (MaxAmount - 1) \div 2 + 1
NodeSize(nkeys) == NodeMeta + KS * nkeys + Ptr * (nkeys + 1)
\* the division above for an arbitrary key length: a node with the maximal number of children fits its block
\* and one more key would not, for every key length the property ranges over; the remainder of the division
\* falls in one of three classes (no slack, less than a pointer, almost another entry) - the key lengths of
\* the replayed families are chosen to contain all three with a small fan-out (807, 808, 809)
CapOf(ks) == (Block - NodeMeta - Ptr) \div (ks + Ptr) + 1
RemOf(ks) == (Block - NodeMeta - Ptr) % (ks + Ptr)
AllKeyLengthsFit ==
  \A ks \in 1..1000 : /\ NodeMeta + ks * (CapOf(ks) - 1) + Ptr * CapOf(ks) <= Block
                       /\ NodeMeta + ks * CapOf(ks) + Ptr * (CapOf(ks) + 1) > Block
RemainderClassesCovered == RemOf(808) = 0 /\ RemOf(807) \in 1..(Ptr - 1) /\ RemOf(809) >= 809

N == Len(cnt)
Key(i) == 2 * i                          \* stored keys
Probes == 1 .. (2 * N + 1)               \* stored and absent keys

RECURSIVE SumTo(_, _)
SumTo(c, i) == IF i = 0 THEN 0 ELSE c[i] + SumTo(c, i - 1)
RunStart(i) == SumTo(cnt, i - 1)         \* slot index (0-based) of the newest version of key i
Total       == SumTo(cnt, N)
LeavesBytes == Total * RH

\* key number owning slot s (0-based)
KeyOfSlot(s) == CHOOSE i \in 1..N : RunStart(i) <= s /\ s < RunStart(i) + cnt[i]

Min2(a, b) == IF a < b THEN a ELSE b
Monus(a, b) == IF a > b THEN a - b ELSE 0

-----------------------------------------------------------------------------
(* serialize_bptree: leaf nodes.  A new leaf begins at a key boundary when  *)
(* fewer than RH bytes of the block remain; a long run saturates the rest.  *)

RECURSIVE LeafScan(_, _, _, _, _, _)
LeafScan(i, offset, remainder, minK, minO, acc) ==
  IF i > N THEN Append(acc, [key |-> minK, off |-> minO])
  ELSE LET newLeaf == remainder < RH
           acc2 == IF newLeaf THEN Append(acc, [key |-> minK, off |-> minO]) ELSE acc
           k2   == IF newLeaf THEN Key(i) ELSE minK
           o2   == IF newLeaf THEN offset ELSE minO
           rem2 == IF newLeaf THEN Block ELSE remainder
           delta == cnt[i] * RH
       IN  LeafScan(i + 1, offset + delta, Monus(rem2, delta), k2, o2, acc2)

LeafNodes == LeafScan(1, 0, Block, Key(1), 0, <<>>)

-----------------------------------------------------------------------------
(* build_tree: layers of inner nodes, bottom-up grouping, top-down layout   *)

RECURSIVE Chunks(_)
Chunks(n) ==   \* sizes of the groups made of n nodes
  IF n <= MaxAmount THEN <<n>>
  ELSE LET amount == Min2(MaxAmount, n - MinAmount) IN <<amount>> \o Chunks(n - amount)

\* one layer above `nodes`: [nodes |-> inner nodes with relative child offsets, up |-> entries for the next layer, size]
RECURSIVE MkLayer(_, _, _, _, _)
MkLayer(nodes, sizes, pos, relOff, acc) ==
  IF sizes = <<>> THEN [inner |-> acc.inner, up |-> acc.up, size |-> relOff]
  ELSE LET m     == Head(sizes)
           chunk == SubSeq(nodes, pos, pos + m - 1)
           node  == [keys |-> [j \in 1..(m - 1) |-> chunk[j + 1].key],
                     ptrs |-> [j \in 1..m |-> chunk[j].off],
                     rel  |-> relOff]
       IN  MkLayer(nodes, Tail(sizes), pos + m, relOff + NodeSize(m - 1),
                   [inner |-> Append(acc.inner, node), up |-> Append(acc.up, [key |-> chunk[1].key, off |-> relOff])])

Layer(nodes) == MkLayer(nodes, Chunks(Len(nodes)), 1, 0, [inner |-> <<>>, up |-> <<>>])

\* layers bottom-up: the first is the one directly above the leaves
RECURSIVE LayersUp(_)
LayersUp(nodes) ==
  IF Len(nodes) = 1 THEN <<>>
  ELSE LET ly == Layer(nodes) IN <<ly>> \o LayersUp(ly.up)

Layers   == LayersUp(LeafNodes)
Depth    == Len(Layers)
RECURSIVE SizeFrom(_, _)
SizeFrom(ls, j) == IF j > Len(ls) THEN 0 ELSE ls[j].size + SizeFrom(ls, j + 1)
TreeSize == SizeFrom(Layers, 1)
\* the file places the top layer first: start (relative to tree_offset) of bottom-up layer j
LayerStart(j) == SizeFrom(Layers, j + 1)
\* where the children of layer j live: the layer below, or the leaves
ChildBase(j)  == IF j = 1 THEN TreeSize ELSE LayerStart(j - 1)

\* the inner node stored at byte `o` (relative to tree_offset)
NodeAt(o) ==
  LET j == CHOOSE j \in 1..Depth : LayerStart(j) <= o /\ o < LayerStart(j) + Layers[j].size
      nd == CHOOSE nd \in {Layers[j].inner[x] : x \in DOMAIN Layers[j].inner} : LayerStart(j) + nd.rel = o
  IN  [keys |-> nd.keys, ptrs |-> [x \in DOMAIN nd.ptrs |-> nd.ptrs[x] + ChildBase(j)]]

-----------------------------------------------------------------------------
(* lookups *)

\* Node::binary_search_serialized + key_offset_serialized
RECURSIVE BS(_, _, _, _)
BS(keys, k, lo, hi) ==    \* 0-based l..r over keys; result index into ptrs (1-based)
  IF lo > hi THEN lo + 1
  ELSE LET m == (lo + hi) \div 2 IN
       IF k < keys[m + 1] THEN BS(keys, k, lo, m - 1)
       ELSE IF k > keys[m + 1] THEN BS(keys, k, m + 1, hi)
       ELSE m + 2
ChildOf(node, k) == node.ptrs[BS(node.keys, k, 0, Len(node.keys) - 1)]

\* find_leaf_node: descend from the root until the offset points into the leaves
RECURSIVE Descend(_, _)
Descend(k, o) == IF o < TreeSize THEN Descend(k, ChildOf(NodeAt(o), k)) ELSE o - TreeSize
LeafOff(k) == Descend(k, 0)              \* bytes from the start of the leaf array

\* read_header_buf: binary search over the slots of the buffer read at the leaf
BufSlots(lo) == Min2(LeavesBytes - lo, Block) \div RH
RECURSIVE SlotBS(_, _, _, _)
SlotBS(k, base, l, r) ==   \* returns slot index relative to the buffer, or -1
  IF l > r THEN -1
  ELSE LET m == (l + r) \div 2  km == Key(KeyOfSlot(base + m)) IN
       IF k < km THEN SlotBS(k, base, l, m - 1)
       ELSE IF k > km THEN SlotBS(k, base, m + 1, r)
       ELSE m

\* get_leftmost: walk left inside the buffer while the key is the same
RECURSIVE Leftmost(_, _, _)
Leftmost(k, base, m) ==
  IF m > 0 /\ Key(KeyOfSlot(base + m - 1)) = k THEN Leftmost(k, base, m - 1) ELSE m

\* get_latest: global slot of the answer or -1
FindLatest(k) ==
  LET lo == LeafOff(k)  base == lo \div RH
      m  == SlotBS(k, base, 0, BufSlots(lo) - 1)
  IN  IF m = -1 THEN -1 ELSE base + Leftmost(k, base, m)

\* find_by_key: go_left in the buffer, the hit, go_right in the buffer (strict bound), then
\* go_right_file slot by slot up to the end of the leaf array
RECURSIVE GoLeft(_, _, _, _)
GoLeft(k, base, m, acc) ==   \* collects m-1, m-2, ... while same key (then reversed by the caller)
  IF m >= 1 /\ Key(KeyOfSlot(base + m - 1)) = k THEN GoLeft(k, base, m - 1, Append(acc, base + m - 1)) ELSE acc
Rev(s) == [i \in 1..Len(s) |-> s[Len(s) - i + 1]]

RECURSIVE GoRightBuf(_, _, _, _, _)
GoRightBuf(k, base, offBytes, bound, acc) ==  \* offBytes: byte position inside the buffer
  IF offBytes + RH < bound
  THEN IF Key(KeyOfSlot(base + offBytes \div RH)) = k
       THEN GoRightBuf(k, base, offBytes + RH, bound, Append(acc, base + offBytes \div RH))
       ELSE [list |-> acc, stop |-> TRUE, next |-> offBytes]
  ELSE [list |-> acc, stop |-> FALSE, next |-> offBytes]

RECURSIVE GoRightFile(_, _, _)
GoRightFile(k, absBytes, acc) ==
  IF absBytes + RH <= LeavesBytes /\ Key(KeyOfSlot(absBytes \div RH)) = k
  THEN GoRightFile(k, absBytes + RH, Append(acc, absBytes \div RH)) ELSE acc

FindAll(k) ==
  LET lo == LeafOff(k)  base == lo \div RH
      nb == BufSlots(lo)
      m  == SlotBS(k, base, 0, nb - 1)
  IN  IF m = -1 THEN <<>>
      ELSE LET left  == Rev(GoLeft(k, base, m, <<>>))
               bufLen == Min2(LeavesBytes - lo, Block)
               bound == Min2(LeavesBytes - lo, bufLen)
               gr    == GoRightBuf(k, base, (m + 1) * RH, bound, <<>>)
               right == IF gr.stop THEN gr.list ELSE gr.list \o GoRightFile(k, lo + gr.next, <<>>)
           IN  left \o <<base + m>> \o right

-----------------------------------------------------------------------------
(* what the in-memory index answers *)
MemLatest(k) == IF k % 2 = 0 /\ k \div 2 \in 1..N THEN RunStart(k \div 2) ELSE -1
MemAll(k)    == IF k % 2 = 0 /\ k \div 2 \in 1..N
                THEN [j \in 1..cnt[k \div 2] |-> RunStart(k \div 2) + j - 1] ELSE <<>>

\* ---- timestamps, markers and the order they induce (what the harness writes) ----------
TsOf(p, j, c) == CASE p = "asc" -> j
                   [] p = "desc" -> c - j + 1
                   [] p = "equal" -> 1
                   [] OTHER -> IF j % 2 = 0 THEN j - 1 ELSE j + 1      \* zigzag 2 1 4 3 ...
\* written versions (insertion numbers) of a key with c versions, newest first:
\* timestamp descending, ties by insertion descending (the in-memory index reversed)
NewestFirst(p, c) ==
  SortSeq([j \in 1..c |-> j],
          LAMBDA a, b : TsOf(p, a, c) > TsOf(p, b, c) \/ (TsOf(p, a, c) = TsOf(p, b, c) /\ a > b))
IsDel(j) == delAt # 0 /\ j = delAt
\* expected answers for stored key i, in the alphabet of the harness
ExpLatest(i) == LET j == NewestFirst(pat, cnt[i])[1] IN
                [t |-> IF IsDel(j) THEN "D" ELSE "F", j |-> j, ts |-> TsOf(pat, j, cnt[i])]
ExpAllWM(i) ==
  LET o == NewestFirst(pat, cnt[i])
      d == {x \in DOMAIN o : IsDel(o[x])}
      cut == IF d = {} THEN o ELSE SubSeq(o, 1, CHOOSE x \in d : \A y \in d : x <= y)
  IN  [x \in DOMAIN cut |-> <<TsOf(pat, cut[x], cnt[i]), IF IsDel(cut[x]) THEN 1 ELSE 0, cut[x]>>]

\* Shapes are enumerated in two steps so that TLC's workers share the work: an initial state
\* fixes the number of keys, the timestamp pattern and the marker position (cnt is a
\* placeholder), the single step chooses the vector.
ShapesOf(n) ==
  IF Family = "all" THEN [1..n -> Runs]
  ELSE {[i \in 1..n |-> IF i = p THEN r2 ELSE 1] : p \in 1..n, r2 \in Runs}
Init == /\ chosen = FALSE
        /\ \E n \in PerturbFrom..MaxKeys : cnt = [i \in 1..n |-> 1]
        /\ pat \in TsPatterns /\ delAt \in DelAts
Next == /\ ~chosen /\ chosen' = TRUE
        /\ cnt' \in ShapesOf(N)
        /\ UNCHANGED <<pat, delAt>>
Spec == Init /\ [][Next]_<<cnt, pat, delAt, chosen>>

\* C09
LookupsEqualMemory == chosen => \A k \in Probes : FindLatest(k) = MemLatest(k) /\ FindAll(k) = MemAll(k)
\* every key's run starts inside the first block of its leaf (why the single buffer read suffices)
RunStartsInBuffer == chosen => \A i \in 1..N : LET lo == LeafOff(Key(i)) IN
                        lo <= RunStart(i) * RH /\ RunStart(i) * RH + RH <= lo + Block
\* layout facts compared with the real file by the harness (spec drift detector, not a property)
Layout == [tree |-> TreeSize, leaves |-> Len(LeafNodes), depth |-> Depth, total |-> Total,
           rootKeys |-> IF Depth = 0 THEN 0 ELSE Len(Layers[Depth].inner[1].keys)]

\* one line per shape for the harness
ShapeJson == [cnt |-> cnt, pat |-> pat, delAt |-> delAt, layout |-> Layout,
              latest |-> [i \in 1..N |-> ExpLatest(i)], allwm |-> [i \in 1..N |-> ExpAllWM(i)]]
=============================================================================
