------------------------------ MODULE PearlIO ------------------------------
(***************************************************************************)
(* File-level specification of pearl: what the storage does to its files.  *)
(*                                                                         *)
(* One action per file operation of src/io/unix/sync.rs (create / open,    *)
(* offset reservation, append write, positional write, the three phases    *)
(* of fsyncdata), plus index re-creation (truncate), quarantine (rename),  *)
(* index removal, the linearization-point events of the storage (record    *)
(* appended and indexed, active blob set / closed / restored / replaced,   *)
(* index dumped) and the API call / return / quiescence events of a        *)
(* driver.  The durability model: `sync_all` makes durable exactly the     *)
(* writes that completed before it was called.                             *)
(*                                                                         *)
(* The module is used in two ways:                                         *)
(*  - TraceIO.tla replays recorded executions of the real code through     *)
(*    these actions (C07, C12, parts of C11 / C06); an execution that      *)
(*    needs a step the specification does not have is rejected;            *)
(*  - MCIO.tla explores the actions freely for small constants (crash      *)
(*    points, C06).                                                        *)
(***************************************************************************)
EXTENDS Naturals, Integers, Sequences, FiniteSets, TLC

CONSTANTS BlobHeaderLen    \* 20 bytes: magic, version, flags

VARIABLES
  file,      \* name |-> record, see NewFile
  everBlob,  \* ids of every blob file ever created or found in the work directory
  active,    \* id of the active blob or -1
  limit,     \* max_dirty_bytes_before_sync of the session
  api,       \* "" or the name of the API call in progress (sequential drivers)
  post,      \* obligation raised by the last event: "", "fsync", "closed:<id>", "quiescent"
  postId,    \* blob the obligation is about
  strict     \* TRUE when the driver waits for quiescence after every call

iovars == <<file, everBlob, active, limit, api, post, postId, strict>>

NoBlob == -1

\* size    : reserved length (the `size` counter of the file object)
\* chunks  : set of [off, len, done] append writes at or after cpos
\* cpos    : end of the contiguous completely written prefix (chunks inside it are dropped:
\*           long concurrent traces stay linear to validate)
\* base    : length of the file when it was opened (0: created in this execution)
\* synced  : the `synced_size` counter
\* dur     : length of the prefix that is durable (survives power loss)
\* pend    : sequence of [seen, upto]: syncs in flight (size read at begin, contiguous
\*           completed prefix when sync_all was called; 0 before that)
\* acked   : end offset of the last record the storage indexed in this blob
\* recs    : blobs: [off, len] of every record acknowledged (indexed) in this execution, in order
\* written : index files: the header carries the `written` bit
\* descr   : index files: blob size recorded in the header
NewFile(kind, id, loc, len) ==
  [kind |-> kind, id |-> id, loc |-> loc, size |-> len, chunks |-> {}, synced |-> len, dur |-> len,
   pend |-> <<>>, acked |-> 0, written |-> FALSE, descr |-> 0, base |-> len, cpos |-> len, recs |-> <<>>]

Exists(f) == f \in DOMAIN file
IsBlob(f) == Exists(f) /\ file[f].kind = "blob"

\* end of the contiguous completed prefix of a file
RECURSIVE ContigFrom(_, _)
ContigFrom(cs, pos) ==
  LET nxt == {c \in cs : c.off = pos /\ c.done} IN
  IF nxt = {} THEN pos ELSE LET c == CHOOSE c \in nxt : TRUE IN ContigFrom(cs, pos + c.len)
Contig(f) == ContigFrom(file[f].chunks, file[f].cpos)

BlobName(id) == "b" \o ToString(id)
BlobOfIndex(f) == BlobName(file[f].id)

-----------------------------------------------------------------------------
(*                              file operations                            *)

\* a new file; blob ids are never reused (C07 / C03)
Create(f, kind, id, loc) ==
  /\ ~Exists(f)
  /\ kind = "blob" => id \notin everBlob
  /\ file' = file @@ (f :> NewFile(kind, id, loc, 0))
  /\ everBlob' = IF kind = "blob" THEN everBlob \cup {id} ELSE everBlob
  /\ UNCHANGED <<active, limit, api, strict>>

\* an existing file of length len is opened.  As pearl does (synced_size := size), its
\* current content is taken to be durable.  A file known from earlier in the same
\* execution must be found with exactly the bytes that were completely written (C07).
OpenExisting(f, kind, id, loc, len) ==
  /\ Exists(f) => (file[f].kind # "blob" \/ len = Contig(f))
  /\ file' = [x \in DOMAIN file \cup {f} |->
                IF x # f THEN file[x]
                ELSE IF Exists(f)
                THEN [NewFile(kind, id, loc, len) EXCEPT !.acked = file[f].acked, !.written = file[f].written,
                                                        !.descr = file[f].descr, !.recs = file[f].recs]
                ELSE NewFile(kind, id, loc, len)]
  /\ everBlob' = IF kind = "blob" THEN everBlob \cup {id} ELSE everBlob
  /\ UNCHANGED <<active, limit, api, strict>>

\* size.fetch_add: appends are issued at the current end only
Reserve(f, off, len) ==
  /\ Exists(f)
  /\ off = file[f].size
  /\ file' = [file EXCEPT ![f].size = off + len,
                          ![f].chunks = @ \cup {[off |-> off, len |-> len, done |-> FALSE]}]
  /\ UNCHANGED <<everBlob, active, limit, api, strict>>

\* the write of a reserved range begins: it must be exactly one reserved, unwritten range
WriteBegin(f, off, len) ==
  /\ Exists(f)
  /\ [off |-> off, len |-> len, done |-> FALSE] \in file[f].chunks
  /\ UNCHANGED <<file, everBlob, active, limit, api, strict>>

WriteDone(f, off, len) ==
  /\ Exists(f)
  /\ [off |-> off, len |-> len, done |-> FALSE] \in file[f].chunks
  /\ LET cs == (file[f].chunks \ {[off |-> off, len |-> len, done |-> FALSE]}) \cup {[off |-> off, len |-> len, done |-> TRUE]}
         np == ContigFrom(cs, file[f].cpos)
     IN  file' = [file EXCEPT ![f].chunks = {c \in cs : c.off >= np}, ![f].cpos = np]
  /\ UNCHANGED <<everBlob, active, limit, api, strict>>

\* positional write: only index files (header rewrite), never a blob (C07)
WriteAt(f, off, len, written, descr) ==
  /\ Exists(f) /\ file[f].kind = "index"
  /\ off + len <= file[f].size
  /\ file' = IF off = 0 THEN [file EXCEPT ![f].written = written, ![f].descr = descr] ELSE file
  /\ UNCHANGED <<everBlob, active, limit, api, strict>>

\* syncs in flight are kept in a sequence: two concurrent syncs may have read the same size
PendIdx(f, seen, called) ==
  LET c == {i \in DOMAIN file[f].pend : file[f].pend[i].seen = seen /\ (file[f].pend[i].upto # 0) = called}
  IN  IF c = {} THEN 0 ELSE CHOOSE i \in c : \A j \in c : i <= j
RemoveAt(s, i) == [j \in 1..(Len(s) - 1) |-> IF j < i THEN s[j] ELSE s[j + 1]]

SyncBegin(f, seen) ==
  /\ Exists(f)
  /\ file' = [file EXCEPT ![f].pend = Append(@, [seen |-> seen, upto |-> 0])]
  /\ UNCHANGED <<everBlob, active, limit, api, strict>>

\* sync_all is called: everything completed up to now will be durable
SyncCall(f, seen) ==
  /\ Exists(f) /\ PendIdx(f, seen, FALSE) # 0
  /\ LET i == PendIdx(f, seen, FALSE) IN
     file' = [file EXCEPT ![f].pend[i].upto = Contig(f) + 1]   \* + 1: 0 means "not called yet"
  /\ UNCHANGED <<everBlob, active, limit, api, strict>>

SyncEnd(f, seen) ==
  /\ Exists(f) /\ PendIdx(f, seen, TRUE) # 0
  /\ LET i == PendIdx(f, seen, TRUE)
         u == file[f].pend[i].upto - 1
     IN  file' = [file EXCEPT ![f].pend = RemoveAt(@, i),
                              ![f].dur = IF u > @ THEN u ELSE @,
                              ![f].synced = IF seen > @ THEN seen ELSE @]
  /\ UNCHANGED <<everBlob, active, limit, api, strict>>

\* index re-creation: only index files may be truncated (C07)
Truncate(f) ==
  /\ Exists(f) /\ file[f].kind = "index"
  /\ file' = [file EXCEPT ![f] = NewFile("index", file[f].id, file[f].loc, 0)]
  /\ UNCHANGED <<everBlob, active, limit, api, strict>>

\* quarantine: a blob moves unchanged into the corrupted directory, never onto an existing name
Rename(f, f2) ==
  /\ Exists(f) /\ file[f].kind = "blob" /\ file[f].loc = "w"
  /\ ~Exists(f2)
  /\ file' = [x \in (DOMAIN file \ {f}) \cup {f2} |-> IF x = f2 THEN [file[f] EXCEPT !.loc = "c"] ELSE file[x]]
  /\ UNCHANGED <<everBlob, active, limit, api, strict>>

\* only index files are ever removed (C07)
Remove(f) ==
  /\ Exists(f) => file[f].kind = "index"
  /\ file' = [x \in DOMAIN file \ {f} |-> file[x]]
  /\ UNCHANGED <<everBlob, active, limit, api, strict>>

-----------------------------------------------------------------------------
(*                      storage-level (linearization) events               *)

\* a record was written and indexed: it lies completely inside written bytes, directly
\* after the previously acknowledged record of this blob
Appended(f, off, len) ==
  /\ IsBlob(f)
  /\ \/ off >= file[f].base /\ off + len <= file[f].cpos
     \/ \E c \in file[f].chunks : c.done /\ c.off <= off /\ off + len <= c.off + c.len
  /\ file' = [file EXCEPT ![f].acked = off + len, ![f].recs = Append(@, [off |-> off, len |-> len])]
  /\ UNCHANGED <<everBlob, active, limit, api, strict>>

SetActive(id)  == active' = id /\ UNCHANGED <<file, everBlob, limit, api, strict>>

Dumped(f) == UNCHANGED iovars

-----------------------------------------------------------------------------
(*                                invariants                               *)

Blobs == {f \in DOMAIN file : file[f].kind = "blob"}
Indexes == {f \in DOMAIN file : file[f].kind = "index"}

\* C12: a new blob's header is durable before any record is acknowledged into it
HeaderSyncedBeforeFirstAck ==
  \A f \in Blobs : (file[f].acked > 0 /\ file[f].base = 0) => file[f].dur >= BlobHeaderLen

\* C12: an index is marked complete only after the blob bytes it describes were synced
IndexWrittenImpliesBlobDurable ==
  \A f \in Indexes : (file[f].written /\ Exists(BlobOfIndex(f)))
                        => file[BlobOfIndex(f)].dur >= file[f].descr

\* the published synced size never exceeds what really is durable
SyncedLeDurable == \A f \in DOMAIN file : file[f].synced <= file[f].dur

\* C12: at quiescence the un-synced bytes of the active blob are within the limit
DirtyBoundedAtQuiescence ==
  (post = "quiescent" /\ active # NoBlob /\ Exists(BlobName(active)))
     => file[BlobName(active)].size - file[BlobName(active)].dur <= limit

\* C12: after an explicit fsyncdata nothing of the active blob is left un-synced
FsyncLeavesNoDirty ==
  (post = "fsync" /\ active # NoBlob /\ Exists(BlobName(active)))
     => file[BlobName(active)].dur = file[BlobName(active)].size

\* C12: after a successful close of the active blob (or of the storage) that blob is durable
CloseLeavesNoDirty ==
  (post = "closed" /\ postId # NoBlob /\ Exists(BlobName(postId)))
     => file[BlobName(postId)].dur = file[BlobName(postId)].size

\* C07: files tile: no gap, no overlap among the ranges ever reserved (reservation at the end)
NoOverlap ==
  \A f \in Blobs : \A c1, c2 \in file[f].chunks :
     c1 # c2 => (c1.off + c1.len <= c2.off \/ c2.off + c2.len <= c1.off)

-----------------------------------------------------------------------------
(*                         crash and recovery (C06)                        *)

\* cuts: sequence of <<file name, length of the file in the crash image>>
CutOf(cuts, f) == LET m == {i \in DOMAIN cuts : cuts[i][1] = f} IN
                  IF m = {} THEN -1 ELSE cuts[CHOOSE i \in m : TRUE][2]

\* an image the crash model allows: after a kill every completed write is in the file; after a
\* power loss at least the durable prefix is
ImageAllowed(kind, cuts) ==
  \A f \in DOMAIN file : file[f].loc = "w" =>
     LET c == CutOf(cuts, f) IN
     /\ c >= 0
     /\ IF kind = "kill" THEN c = Contig(f) ELSE c >= file[f].dur /\ c <= file[f].size

Pairs(s) == {<<s[i][1], s[i][2]>> : i \in DOMAIN s}
RecsOf(f) == {<<file[f].id, file[f].recs[i].off>> : i \in DOMAIN file[f].recs}
\* records of blob f that lie completely below a cut
Below(f, c) == {<<file[f].id, file[f].recs[i].off>> : i \in {i \in DOMAIN file[f].recs : file[f].recs[i].off + file[f].recs[i].len <= c}}
PrefixClosed(f, S) ==
  \A i, j \in DOMAIN file[f].recs : i < j /\ <<file[f].id, file[f].recs[j].off>> \in S => <<file[f].id, file[f].recs[i].off>> \in S

\* the index of blob f was complete and durable in the image: the blob was closed and indexed
IndexedDurably(f, cuts) ==
  LET i == "i" \o ToString(file[f].id) IN
  /\ Exists(i) /\ file[i].written /\ file[i].dur = file[i].size /\ file[i].size > 0
  /\ CutOf(cuts, i) = file[i].size /\ file[i].descr = file[f].size

\* C06: what `init` made of the image
RecoveryOK(kind, cuts, served, quar, restored) ==
  \A f \in Blobs : file[f].loc = "w" =>
     LET c   == CutOf(cuts, f)
         mine == {p \in Pairs(served) : p[1] = file[f].id}
         q   == file[f].id \in {quar[i] : i \in DOMAIN quar}
     IN  IF q
         THEN \* quarantined intact; after a pure kill every acknowledged record must be restorable
              /\ mine = {}
              /\ (kind = "kill" => RecsOf(f) \subseteq Pairs(restored))
         ELSE /\ mine \subseteq Below(f, c)                \* nothing that was not completely on disk
              /\ PrefixClosed(f, mine)                      \* a prefix of the acknowledged order
              /\ (kind = "kill" => mine = RecsOf(f))        \* a kill loses nothing that was acknowledged
              /\ (IndexedDurably(f, cuts) => mine = RecsOf(f))   \* closed and indexed blobs are served in full
=============================================================================
