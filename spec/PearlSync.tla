------------------------------ MODULE PearlSync ------------------------------
(***************************************************************************)
(* Scheduling of the background sync of the active blob (C12 over          *)
(* schedules): src/storage/core.rs Storage::write_impl / should_try_fsync, *)
(* Inner::fsyncdata; src/storage/observer_worker.rs try_run_fsync_task;    *)
(* src/io/unix/sync.rs File::write_append_* / fsyncdata.                   *)
(*                                                                         *)
(* One step per atomic access of the code.  Every write is one byte long,  *)
(* offsets are reserved with size.fetch_add before the bytes are written   *)
(* (several writers are inside the file at the same time).  A writer that  *)
(* is done looks at the dirty bytes and asks the worker for a sync; the    *)
(* worker runs one sync task at a time.                                    *)
(*                                                                         *)
(* Two named deviations, both TRUE on the repaired tree:                   *)
(*   Rerequest     - a writer / the worker that finds a sync in progress   *)
(*                   leaves a request flag and the sync loop repeats       *)
(*                   (FALSE: the request is dropped - finding F18)         *)
(*   TrackInflight - a sync marks as synced only the prefix without writes *)
(*                   in flight (FALSE: the whole reserved size - F10)      *)
(* With either FALSE TLC finds a schedule that ends, with nothing left to  *)
(* run, with more un-synced acknowledged bytes than the limit.             *)
(***************************************************************************)
EXTENDS Naturals, FiniteSets, TLC

CONSTANTS Writers, OpsPerWriter, Limit, Rerequest, TrackInflight

VARIABLES
  size,      \* reserved length of the file (FileInner.size)
  inflight,  \* offsets reserved and not completely written
  synced,    \* FileInner.synced_size
  dur,       \* length of the prefix that really is durable
  inProg,    \* Inner.fsync_in_progress
  req,       \* Inner.fsync_requested
  chan,      \* TryFsyncData messages in the channel
  wpc, woff, wdirty, left,   \* writers
  kpc,       \* worker: "recv" | "check" | "setreq" | "recheck" | "join"
  tpc,       \* sync task: "none" | "cas" | "clearreq" | "checkdirty" | "readsize" | "syncall" | "setsynced" | "reset" | "checkreq" | "exit" | "finished"
  tseen      \* size the task read

svars == <<size, inflight, synced, dur, inProg, req, chan, wpc, woff, wdirty, left, kpc, tpc, tseen>>

Min(S) == CHOOSE x \in S : \A y \in S : x <= y
Max2(a, b) == IF a >= b THEN a ELSE b
\* everything below the first write in flight is completely written
Prefix == Min(inflight \cup {size})

SInit ==
  /\ size = 0 /\ inflight = {} /\ synced = 0 /\ dur = 0 /\ inProg = FALSE /\ req = FALSE /\ chan = 0
  /\ wpc = [w \in Writers |-> "idle"] /\ woff = [w \in Writers |-> 0] /\ wdirty = [w \in Writers |-> 0]
  /\ left = [w \in Writers |-> OpsPerWriter]
  /\ kpc = "recv" /\ tpc = "none" /\ tseen = 0

W(w, to) == wpc' = [wpc EXCEPT ![w] = to]

\* ---- writers ------------------------------------------------------------------------------
WReserve(w) ==
  /\ wpc[w] = "idle" /\ left[w] > 0
  /\ woff' = [woff EXCEPT ![w] = size] /\ size' = size + 1 /\ inflight' = inflight \cup {size}
  /\ W(w, "writing")
  /\ UNCHANGED <<synced, dur, inProg, req, chan, wdirty, left, kpc, tpc, tseen>>
WComplete(w) ==
  /\ wpc[w] = "writing"
  /\ inflight' = inflight \ {woff[w]} /\ W(w, "dirty")
  /\ UNCHANGED <<size, synced, dur, inProg, req, chan, woff, wdirty, left, kpc, tpc, tseen>>
\* Blob::write: dirty_bytes = file.dirty_bytes() after the record was indexed
WDirty(w) ==
  /\ wpc[w] = "dirty"
  /\ wdirty' = [wdirty EXCEPT ![w] = size - synced] /\ W(w, "decide")
  /\ UNCHANGED <<size, inflight, synced, dur, inProg, req, chan, woff, left, kpc, tpc, tseen>>
\* should_try_fsync
WDecide(w) ==
  /\ wpc[w] = "decide"
  /\ IF wdirty[w] <= Limit THEN W(w, "finish")
     ELSE IF ~inProg THEN W(w, "send")
     ELSE IF Rerequest THEN W(w, "setreq") ELSE W(w, "finish")
  /\ UNCHANGED <<size, inflight, synced, dur, inProg, req, chan, woff, wdirty, left, kpc, tpc, tseen>>
WSetReq(w) ==
  /\ wpc[w] = "setreq" /\ req' = TRUE /\ W(w, "recheck")
  /\ UNCHANGED <<size, inflight, synced, dur, inProg, chan, woff, wdirty, left, kpc, tpc, tseen>>
WRecheck(w) ==
  /\ wpc[w] = "recheck" /\ W(w, IF inProg THEN "finish" ELSE "send")
  /\ UNCHANGED <<size, inflight, synced, dur, inProg, req, chan, woff, wdirty, left, kpc, tpc, tseen>>
WSend(w) ==
  /\ wpc[w] = "send" /\ chan' = chan + 1 /\ W(w, "finish")
  /\ UNCHANGED <<size, inflight, synced, dur, inProg, req, woff, wdirty, left, kpc, tpc, tseen>>
WFinish(w) ==
  /\ wpc[w] = "finish"
  /\ left' = [left EXCEPT ![w] = @ - 1] /\ W(w, IF left[w] = 1 THEN "done" ELSE "idle")
  /\ UNCHANGED <<size, inflight, synced, dur, inProg, req, chan, woff, wdirty, kpc, tpc, tseen>>

\* ---- worker: try_run_fsync_task -----------------------------------------------------------
Spawn == tpc' = "cas"
KRecv ==
  /\ kpc = "recv" /\ chan > 0 /\ chan' = chan - 1
  /\ IF Rerequest THEN kpc' = "check" /\ UNCHANGED tpc
     ELSE \* as found: a task that is not finished yet swallows the request
          IF tpc \in {"none", "finished"} THEN Spawn /\ UNCHANGED kpc ELSE UNCHANGED <<kpc, tpc>>
  /\ UNCHANGED <<size, inflight, synced, dur, inProg, req, wpc, woff, wdirty, left, tseen>>
KCheck ==
  /\ kpc = "check" /\ kpc' = IF inProg THEN "setreq" ELSE "join"
  /\ UNCHANGED <<size, inflight, synced, dur, inProg, req, chan, wpc, woff, wdirty, left, tpc, tseen>>
KSetReq ==
  /\ kpc = "setreq" /\ req' = TRUE /\ kpc' = "recheck"
  /\ UNCHANGED <<size, inflight, synced, dur, inProg, chan, wpc, woff, wdirty, left, tpc, tseen>>
KRecheck ==
  /\ kpc = "recheck" /\ kpc' = IF inProg THEN "recv" ELSE "join"
  /\ UNCHANGED <<size, inflight, synced, dur, inProg, req, chan, wpc, woff, wdirty, left, tpc, tseen>>
\* complete_task(previous).await, then spawn
KJoin ==
  /\ kpc = "join" /\ tpc \in {"none", "finished"} /\ Spawn /\ kpc' = "recv"
  /\ UNCHANGED <<size, inflight, synced, dur, inProg, req, chan, wpc, woff, wdirty, left, tseen>>

\* ---- the sync task: Inner::fsyncdata, File::fsyncdata ------------------------------------
T(to) == tpc' = to
TCas ==
  /\ tpc = "cas"
  /\ IF inProg THEN T("exit") /\ UNCHANGED inProg
     ELSE inProg' = TRUE /\ T(IF Rerequest THEN "clearreq" ELSE "checkdirty")
  /\ UNCHANGED <<size, inflight, synced, dur, req, chan, wpc, woff, wdirty, left, kpc, tseen>>
TClearReq ==
  /\ tpc = "clearreq" /\ req' = FALSE /\ T("checkdirty")
  /\ UNCHANGED <<size, inflight, synced, dur, inProg, chan, wpc, woff, wdirty, left, kpc, tseen>>
TCheckDirty ==
  /\ tpc = "checkdirty" /\ T(IF size - synced > Limit THEN "readsize" ELSE "reset")
  /\ UNCHANGED <<size, inflight, synced, dur, inProg, req, chan, wpc, woff, wdirty, left, kpc, tseen>>
TReadSize ==
  /\ tpc = "readsize" /\ tseen' = (IF TrackInflight THEN Prefix ELSE size) /\ T("syncall")
  /\ UNCHANGED <<size, inflight, synced, dur, inProg, req, chan, wpc, woff, wdirty, left, kpc>>
\* sync_all: what is completely written now becomes durable
TSyncAll ==
  /\ tpc = "syncall" /\ dur' = Max2(dur, Prefix) /\ T("setsynced")
  /\ UNCHANGED <<size, inflight, synced, inProg, req, chan, wpc, woff, wdirty, left, kpc, tseen>>
TSetSynced ==
  /\ tpc = "setsynced" /\ synced' = Max2(synced, tseen) /\ T("reset")
  /\ UNCHANGED <<size, inflight, dur, inProg, req, chan, wpc, woff, wdirty, left, kpc, tseen>>
TReset ==
  /\ tpc = "reset" /\ inProg' = FALSE /\ T(IF Rerequest THEN "checkreq" ELSE "exit")
  /\ UNCHANGED <<size, inflight, synced, dur, req, chan, wpc, woff, wdirty, left, kpc, tseen>>
TCheckReq ==
  /\ tpc = "checkreq" /\ T(IF req THEN "cas" ELSE "exit")
  /\ UNCHANGED <<size, inflight, synced, dur, inProg, req, chan, wpc, woff, wdirty, left, kpc, tseen>>
\* JoinHandle::is_finished turns true some time after the future returned
TExit ==
  /\ tpc = "exit" /\ T("finished")
  /\ UNCHANGED <<size, inflight, synced, dur, inProg, req, chan, wpc, woff, wdirty, left, kpc, tseen>>

Quiescent ==
  /\ \A w \in Writers : wpc[w] = "done"
  /\ chan = 0 /\ kpc = "recv" /\ tpc \in {"none", "finished"}
Stutter == Quiescent /\ UNCHANGED svars

SNext ==
  \/ \E w \in Writers : WReserve(w) \/ WComplete(w) \/ WDirty(w) \/ WDecide(w) \/ WSetReq(w) \/ WRecheck(w) \/ WSend(w) \/ WFinish(w)
  \/ KRecv \/ KCheck \/ KSetReq \/ KRecheck \/ KJoin
  \/ TCas \/ TClearReq \/ TCheckDirty \/ TReadSize \/ TSyncAll \/ TSetSynced \/ TReset \/ TCheckReq \/ TExit
  \/ Stutter

SSpec == SInit /\ [][SNext]_svars /\ WF_svars(SNext)

\* C12: with nothing left to run, the acknowledged bytes that are not durable are within the limit
BoundedAtQuiescence == Quiescent => size - dur <= Limit
\* the accounting never claims more than is durable
SyncedLeDurable == synced <= dur
\* a state without a successor is a quiescent one
NoStuck == Quiescent \/ ENABLED (
  \/ \E w \in Writers : WReserve(w) \/ WComplete(w) \/ WDirty(w) \/ WDecide(w) \/ WSetReq(w) \/ WRecheck(w) \/ WSend(w) \/ WFinish(w)
  \/ KRecv \/ KCheck \/ KSetReq \/ KRecheck \/ KJoin
  \/ TCas \/ TClearReq \/ TCheckDirty \/ TReadSize \/ TSyncAll \/ TSetSynced \/ TReset \/ TCheckReq \/ TExit)
SyncTermination == <>[]Quiescent
=============================================================================
