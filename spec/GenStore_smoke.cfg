SPECIFICATION GSpec
CONSTANTS
  Keys = {1}
  MaxTs = 2
  Metas = {0}
  Sizes = {"s"}
  AllowDup = TRUE
  MaxRecs = 0
  Quiesce = TRUE
  DeferredFires = TRUE
  Deterministic = TRUE
  OffloadLevels = {}
  RestoreLoadsIndex = TRUE
  WorkerSurvives = TRUE
  HolesCounted = FALSE
  QuarIdsReserved = TRUE
  GenLen = 2
  GenDamages = {"keep"}
INVARIANT Emit
CHECK_DEADLOCK FALSE
