---------------------------- MODULE PearlFilters ----------------------------
(***************************************************************************)
(* Filters of pearl (src/filter): per-blob bloom + range filter and the    *)
(* two-or-more-level hierarchy of merged filters over the closed blobs     *)
(* (HierarchicalFilters::push / add_child / pop / iter_possible_childs /   *)
(* offload_buffer), transcribed with blooms as bit sets under an abstract  *)
(* hash that has collisions.                                               *)
(*                                                                         *)
(* C10: no path through the hierarchy, and no blob filter - in memory,     *)
(* off-loaded (answered from the file) or merged - answers "definitely     *)
(* absent" for a key that is stored.                                       *)
(***************************************************************************)
EXTENDS Naturals, Integers, Sequences, FiniteSets, TLC

CONSTANTS KeysF,      \* keys (naturals)
          NBits,      \* bloom size; 0 = bloom switched off
          GroupSize,  \* bloom_filter_group_size
          MaxBlobs,   \* bound
          Level       \* level of the container (1 in the storage)

VARIABLES
  bkeys,     \* blob id |-> set of keys written to it
  bfilt,     \* blob id |-> filter value
  act,       \* id of the active blob or 0
  closedAt,  \* children vector: blob id or Hole
  inner,     \* inner vector: nodes and leaves
  root,      \* index of the root node in inner
  nextB

fvars == <<bkeys, bfilt, act, closedAt, inner, root, nextB>>

Hole == 0
NoFilter == [none |-> TRUE, bits |-> {}, off |-> FALSE, init |-> FALSE, lo |-> 0, hi |-> 0]

\* abstract hash: two positions per key, with collisions
H(k) == IF NBits = 0 THEN {} ELSE {(k % NBits) + 1, ((k * k + 1) % NBits) + 1}

EmptyFilter == [none |-> FALSE, bits |-> {}, off |-> FALSE, init |-> FALSE, lo |-> 0, hi |-> 0]

AddKey(f, k) ==
  [f EXCEPT !.bits = IF f.off THEN @ ELSE @ \cup H(k),
            !.init = TRUE,
            !.lo = IF ~f.init \/ k < f.lo THEN k ELSE @,
            !.hi = IF ~f.init \/ k > f.hi THEN k ELSE @]

\* CombinedFilter::contains_fast: range first, then bloom (off-loaded or absent bloom passes)
PassFast(f, k) ==
  IF f.none THEN TRUE
  ELSE IF ~f.init \/ k < f.lo \/ k > f.hi THEN FALSE
  ELSE IF NBits = 0 \/ f.off THEN TRUE
  ELSE H(k) \subseteq f.bits

\* CombinedFilter::contains with a data provider: an off-loaded bloom is answered from the
\* file, which holds the bits as they were dumped
PassFile(f, k) ==
  IF ~f.init \/ k < f.lo \/ k > f.hi THEN FALSE
  ELSE IF NBits = 0 THEN TRUE ELSE H(k) \subseteq f.bits

\* checked_add_assign of CombinedFilter: range merges always, bloom only when both are in
\* memory (same size, same hashers); on failure the destination becomes None
Merge(dest, src) ==
  IF dest.none \/ src.none THEN NoFilter
  ELSE IF NBits # 0 /\ (dest.off \/ src.off) THEN NoFilter
  ELSE [none |-> FALSE, bits |-> dest.bits \cup src.bits, off |-> FALSE,
        init |-> dest.init \/ src.init,
        lo |-> IF ~dest.init THEN src.lo ELSE IF ~src.init THEN dest.lo ELSE IF src.lo < dest.lo THEN src.lo ELSE dest.lo,
        hi |-> IF ~dest.init THEN src.hi ELSE IF ~src.init THEN dest.hi ELSE IF src.hi > dest.hi THEN src.hi ELSE dest.hi]

Node(filter, children, parent) == [kind |-> "node", filter |-> filter, children |-> children, parent |-> parent, leaf |-> 0]
Leaf(parent, child)            == [kind |-> "leaf", filter |-> NoFilter, children |-> <<>>, parent |-> parent, leaf |-> child]

\* ancestors' filters absorb the new child's filter
RECURSIVE MergeUp(_, _, _)
MergeUp(inn, id, cf) ==
  IF id = 0 THEN inn
  ELSE MergeUp([inn EXCEPT ![id].filter = Merge(@, cf)], inn[id].parent, cf)

\* add_child(node, child): new leaf entry, the node's filter is initialised from the first
\* child or merged, then every ancestor merges
AddChild(inn, cl, node, b) ==
  LET cf      == bfilt[b]
      leafId  == Len(inn) + 1
      childId == Len(cl) + 1
      inn1    == Append(inn, Leaf(node, childId))
      first   == inn[node].children = <<>>
      inn2    == [inn1 EXCEPT ![node].filter = IF first THEN cf ELSE Merge(@, cf),
                              ![node].children = Append(@, leafId)]
      inn3    == MergeUp(inn2, inn[node].parent, cf)
  IN  [inner |-> inn3, cl |-> Append(cl, b)]

\* push(child)
Push(inn, cl, rt, b) ==
  IF Len(cl) < GroupSize
  THEN LET r == AddChild(inn, cl, rt, b) IN
       IF Len(r.cl) >= GroupSize
       THEN \* a new root is put above the old one, with a copy of its filter
            LET newRoot == Len(r.inner) + 1
                inn2 == Append([r.inner EXCEPT ![rt].parent = newRoot],
                               Node(r.inner[rt].filter, <<rt>>, 0))
            IN  [inner |-> inn2, cl |-> r.cl, root |-> newRoot]
       ELSE [inner |-> r.inner, cl |-> r.cl, root |-> rt]
  ELSE LET last == inn[rt].children[Len(inn[rt].children)]
           full == Len(inn[last].children) >= GroupSize
           newId == Len(inn) + 1
           inn1 == IF full
                   THEN Append([inn EXCEPT ![rt].children = Append(@, newId)], Node(NoFilter, <<>>, rt))
                   ELSE inn
           target == IF full THEN newId ELSE last
           r == AddChild(inn1, cl, target, b)
       IN  [inner |-> r.inner, cl |-> r.cl, root |-> rt]

\* iter_possible_childs: children reachable from the root through nodes that do not say
\* "definitely absent"; holes are skipped
RECURSIVE Reach(_, _)
Reach(id, k) ==
  IF inner[id].kind = "leaf"
  THEN IF closedAt[inner[id].leaf] = Hole THEN {} ELSE {inner[id].leaf}
  ELSE UNION {IF inner[c].kind = "node" /\ ~PassFast(inner[c].filter, k) THEN {} ELSE Reach(c, k)
                 : c \in {inner[id].children[j] : j \in DOMAIN inner[id].children}}
Possible(k) == Reach(root, k)

ClosedIds == {closedAt[j] : j \in DOMAIN closedAt} \ {Hole}

-----------------------------------------------------------------------------
FInit ==
  /\ bkeys = (1 :> {}) /\ bfilt = (1 :> EmptyFilter) /\ act = 1 /\ nextB = 2
  /\ closedAt = <<>> /\ inner = <<Node(NoFilter, <<>>, 0)>> /\ root = 1

FWrite(k) ==
  /\ act # 0
  /\ bkeys' = [bkeys EXCEPT ![act] = @ \cup {k}]
  /\ bfilt' = [bfilt EXCEPT ![act] = AddKey(@, k)]
  /\ UNCHANGED <<act, closedAt, inner, root, nextB>>

FClose ==
  /\ act # 0
  /\ LET r == Push(inner, closedAt, root, act) IN
     inner' = r.inner /\ closedAt' = r.cl /\ root' = r.root
  /\ act' = 0
  /\ UNCHANGED <<bkeys, bfilt, nextB>>

FCreate ==
  /\ act = 0 /\ nextB <= MaxBlobs
  /\ act' = nextB /\ nextB' = nextB + 1
  /\ bkeys' = bkeys @@ (nextB :> {}) /\ bfilt' = bfilt @@ (nextB :> EmptyFilter)
  /\ UNCHANGED <<closedAt, inner, root>>

\* pop: the last non-hole child becomes the active blob again, a hole stays; its bloom is
\* read back from the index file (load_index), so it is in memory again
FRestore ==
  /\ act = 0 /\ ClosedIds # {}
  /\ LET j == CHOOSE j \in DOMAIN closedAt : closedAt[j] # Hole /\ \A i \in DOMAIN closedAt : closedAt[i] # Hole => i <= j
         b == closedAt[j] IN
     /\ act' = b /\ closedAt' = [closedAt EXCEPT ![j] = Hole]
     /\ bfilt' = [bfilt EXCEPT ![b].off = FALSE]
  /\ UNCHANGED <<bkeys, inner, root, nextB>>

\* offload_buffer(usize::MAX, level): every closed blob's bloom, then (level >= Level) the
\* filters of the nodes from the parents of the leaves upwards
RECURSIVE Ancestors(_, _)
Ancestors(inn, ids) ==
  LET ps == {inn[i].parent : i \in ids} \ {0} IN IF ps = {} THEN ids ELSE ids \cup Ancestors(inn, ps)
FOffload(level) ==
  /\ bfilt' = [b \in DOMAIN bfilt |-> IF b \in ClosedIds /\ ~bfilt[b].none THEN [bfilt[b] EXCEPT !.off = TRUE] ELSE bfilt[b]]
  /\ inner' = IF level < Level THEN inner
              ELSE LET parents == {inner[i].parent : i \in {i \in DOMAIN inner : inner[i].kind = "leaf" /\ closedAt[inner[i].leaf] # Hole}}
                       all == Ancestors(inner, parents)
                   IN  [i \in DOMAIN inner |-> IF i \in all /\ ~inner[i].filter.none
                                               THEN [inner[i] EXCEPT !.filter.off = TRUE] ELSE inner[i]]
  /\ UNCHANGED <<bkeys, act, closedAt, root, nextB>>

FNext ==
  \/ \E k \in KeysF : FWrite(k)
  \/ FClose \/ FCreate \/ FRestore
  \/ \E l \in {0, 1, 2} : FOffload(l)

FSpec == FInit /\ [][FNext]_fvars

-----------------------------------------------------------------------------
\* C10
NoFalseNegative ==
  \A j \in DOMAIN closedAt : closedAt[j] # Hole =>
     \A k \in bkeys[closedAt[j]] :
        /\ j \in Possible(k)                               \* no node on the way filters it out
        /\ PassFast(bfilt[closedAt[j]], k)                 \* blob filter, fast path
        /\ PassFile(bfilt[closedAt[j]], k)                 \* blob filter answered from the file
ActiveNoFalseNegative == act # 0 => \A k \in bkeys[act] : PassFast(bfilt[act], k)
\* the file answers exactly what the in-memory filter answered before the off-load
FileEqualsMemory ==
  \A b \in DOMAIN bfilt : \A k \in KeysF \cup {0, 99} :
     ~bfilt[b].off => (PassFile(bfilt[b], k) = PassFast(bfilt[b], k))

FBound == Len(closedAt) <= MaxBlobs + 1 /\ Len(inner) <= 3 * MaxBlobs + 6
=============================================================================
