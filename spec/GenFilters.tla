----------------------------- MODULE GenFilters -----------------------------
(* Behaviours of PearlFilters for the real storage: one per TRANSITION of the       *)
(* filter-hierarchy model.  TLC explores PearlFilters breadth-first with the history *)
(* of API-level actions hidden from the fingerprint (VIEW), so every state keeps the *)
(* shortest action sequence that reaches it; the action constraint EmitEdge is       *)
(* evaluated for every successor TLC generates - also for those leading to states    *)
(* already seen - and prints that sequence extended by the action of the edge.       *)
(* The harness executes the calls and then asks for every key it wrote: by C10 none  *)
(* of them may be reported absent (replay --probe-written).                          *)
EXTENDS PearlFilters, Json

CONSTANTS OffLevels,   \* levels passed to offload_buffer
          SampleMod, SampleKeep, Seed

VARIABLES hist

A(a, k, f) == [act |-> [a |-> a, k |-> k, ts |-> 1, m |-> 0, f |-> f, s |-> "s"], ret |-> [t |-> "ok", n |-> 0]]

GInit == FInit /\ hist = <<>>
GNext ==
  \/ \E k \in KeysF : FWrite(k) /\ hist' = Append(hist, A("write", k, 0))
  \/ FClose /\ hist' = Append(hist, A("close_active", 0, 0))
  \/ FCreate /\ hist' = Append(hist, A("create_active", 0, 0))
  \/ FRestore /\ hist' = Append(hist, A("restore_active", 0, 0))
  \/ \E lv \in OffLevels : FOffload(lv) /\ hist' = Append(hist, A("offload", 0, lv))
GSpec == GInit /\ [][GNext]_<<fvars, hist>>
GView == fvars

\* order-sensitive hash of the action sequence, for sampling inside TLC
RECURSIVE HashOf(_, _)
HashOf(h, i) == IF i > Len(h) THEN Seed
                ELSE (HashOf(h, i + 1) * 31 + Len(h[i].act.a) * 7 + h[i].act.k * 3 + h[i].act.f + i) % 1000003
Chosen(h) == HashOf(h, 1) % SampleMod < SampleKeep

EmitEdge == Chosen(hist') => PrintT(<<"BEHAVIOUR", ToJson([steps |-> hist'])>>)
=============================================================================
