----------------------------- MODULE PearlTools -----------------------------
(***************************************************************************)
(* Offline tools of pearl (src/tools): validate_blob, recovery_blob with   *)
(* and without skipping, as sequential scanners over a damaged blob.       *)
(*                                                                         *)
(* A blob is its header followed by n records; a record has the regions    *)
(*   magic | keylen | key | sizes (meta_size, data_size) | flags | offset  *)
(*   | ts | dcrc | hcrc   (the serialized header, CRC-protected)           *)
(*   | meta (not protected) | data (protected by dcrc).                    *)
(* One damage is applied: nothing, a truncation (inside a region of a      *)
(* record, at a record boundary, inside the blob header) or one altered    *)
(* byte in a region.  The scanner below is a transcription of              *)
(* BlobReader::read_single_record / read_record / skip_wrong_record_data   *)
(* and of the loop of process_blob_with; where the outcome depends on the  *)
(* concrete byte (garbage size fields, metadata that still parses) the     *)
(* specification gives the set of allowed outcomes.                        *)
(*                                                                         *)
(* C16: validation accepts exactly well-formed files; recovery output      *)
(* validates, contains every intact record before the damage and - with    *)
(* skipping, when the damaged record is isolated and its size fields are   *)
(* intact - every record after it; every output record is addressable      *)
(* (its offset field is its position in the output).                       *)
(*                                                                         *)
(* The other offline tools of C16 are cases of the same enumeration        *)
(* (kinds starting with "i" damage the index file of the intact blob,      *)
(* kind "migrate" runs the migration tool):                                *)
(*   validate_index accepts exactly the index files the storage produced   *)
(*   for the blob next to them; read_index reports exactly the headers of  *)
(*   the blob or fails; migrate_blob preserves every record (0 -> 1: under *)
(*   the byte-reversed key) or refuses the version pair.                   *)
(***************************************************************************)
EXTENDS Naturals, Integers, Sequences, FiniteSets, TLC

CONSTANTS MaxN     \* blobs of 1..MaxN records

HdrGood  == {"magic", "key", "flags", "offset", "ts", "dcrc", "hcrc"}  \* header damage with intact size fields
HdrBad   == {"keylen", "sizes"}                                        \* the size information itself is damaged
Regions  == HdrGood \cup HdrBad \cup {"meta", "data"}
BlobHdr  == {"bmagic", "bversion", "bflags"}

VARIABLES n,    \* number of records
          dmg   \* [kind, rec, region]

\* kind: "none" | "flip" | "trunc"
\* flip : rec in 1..n, region in Regions; or rec = 0, region in BlobHdr
\* trunc: rec in 1..n, region in Regions (cut strictly inside that region, or - for
\*        "boundary" - exactly before record rec); rec = 0: inside the blob header
\* index file = header (magic | count | record header size | meta size | hash length | hash |
\* version+written | key size | blob size) | filters | tree meta | leaves and nodes
IdxHdr     == {"imagic", "icount", "irhsize", "imetasize", "ihashlen", "ihash", "iversion", "ikeysize", "iblobsize"}
IdxRegions == IdxHdr \cup {"ifilters", "itreemeta", "ibody"}
\* iflip / itrunc: inside a region; iextend: bytes appended; istale: the blob next to the index is
\* longer ("longer") or shorter ("shorter") than the index says; inoblob: no blob next to the index
IdxDamages ==
  {[kind |-> "inone", rec |-> 0, region |-> ""], [kind |-> "inoblob", rec |-> 0, region |-> ""],
   [kind |-> "iextend", rec |-> 0, region |-> ""]}
  \cup {[kind |-> "iflip", rec |-> 0, region |-> r] : r \in IdxRegions}
  \cup {[kind |-> "itrunc", rec |-> 0, region |-> r] : r \in IdxRegions}
  \cup {[kind |-> "istale", rec |-> 0, region |-> r] : r \in {"longer", "shorter"}}
\* migration: rec = 10 * source version + target version
MigCases == {[kind |-> "migrate", rec |-> 10 * from + to, region |-> ""] : from \in {0, 1}, to \in {0, 1, 2}}

Damages(nn) ==
  IdxDamages \cup MigCases \cup
  {[kind |-> "none", rec |-> 0, region |-> ""]}
  \cup {[kind |-> "flip", rec |-> i, region |-> r] : i \in 1..nn, r \in Regions}
  \cup {[kind |-> "flip", rec |-> 0, region |-> r] : r \in BlobHdr}
  \cup {[kind |-> "trunc", rec |-> i, region |-> r] : i \in 1..nn, r \in {"hdr", "meta", "data", "boundary"}}
  \cup {[kind |-> "trunc", rec |-> 0, region |-> "bhdr"]}

\* ---- what the reader sees at record i ---------------------------------------------------
\* "ok" | "absent" (file ends before it) | "cut" (file ends inside it) | "hdrval" (header fails
\* validation, sizes intact) | "garbage" (header fails, sizes unusable) | "recval" (data
\* checksum) | "metaflip" (metadata altered: may or may not parse)
See(i) ==
  IF dmg.kind = "trunc" /\ dmg.rec # 0 /\ i > dmg.rec THEN "absent"
  ELSE IF dmg.kind = "trunc" /\ dmg.rec = i THEN (IF dmg.region = "boundary" THEN "absent" ELSE "cut")
  ELSE IF dmg.kind = "flip" /\ dmg.rec = i THEN
         (IF dmg.region \in HdrGood THEN "hdrval"
          ELSE IF dmg.region \in HdrBad THEN "garbage"
          ELSE IF dmg.region = "data" THEN "recval" ELSE "metaflip")
  ELSE "ok"

Present == {i \in 1..n : See(i) \notin {"absent"}}
Intact  == {i \in 1..n : See(i) = "ok"}
FirstBad == IF \E i \in 1..n : See(i) # "ok" THEN CHOOSE i \in 1..n : See(i) # "ok" /\ \A j \in 1..(i-1) : See(j) = "ok" ELSE n + 1

\* ---- the recovery loop: set of possible outputs (each a set of record numbers) ------------
\* without skipping: copy until the first record that does not read cleanly
\* (altered metadata that still parses is copied: nothing protects metadata)
RecoverPlain ==
  IF FirstBad = n + 1 THEN {1..n}
  ELSE IF See(FirstBad) = "metaflip" THEN {1..(FirstBad - 1), 1..n}
  ELSE {1..(FirstBad - 1)}

\* with skipping: a header-validation error skips by the size fields of the bad header (fails
\* when that was the last record), a data-checksum error simply continues with the next
\* record; only one record is skipped per attempt
RecoverSkip ==
  IF FirstBad = n + 1 THEN {1..n}
  ELSE LET b == FirstBad  s == See(b) IN
       IF s \in {"absent", "cut"} THEN {1..(b - 1)}
       ELSE IF s = "metaflip" THEN {1..n, (1..n) \ {b}}   \* parses to the same size / does not parse or parses to another size:
                                                            \* the header is intact, so the damage is isolated and skipped
       ELSE IF s \in {"hdrval", "recval"} THEN {(1..n) \ {b}}   \* the rest is intact (single damage)
       ELSE \* garbage sizes: before the damage for sure; whatever else is produced must be sound
            {S \in SUBSET (1..n) : (1..(b - 1)) \subseteq S /\ b \notin S}

\* the blob header: a damaged magic number makes every tool fail; version / flags are not
\* checked by the tools (validate_without_version)
HeaderFails == (dmg.kind = "trunc" /\ dmg.rec = 0) \/ (dmg.kind = "flip" /\ dmg.rec = 0 /\ dmg.region = "bmagic")

\* ---- validation ----------------------------------------------------------------------------------
\* "accept" | "reject" | "either" (metadata that may still parse; unchecked blob header fields)
Validate ==
  IF HeaderFails THEN "reject"
  ELSE IF dmg.kind = "flip" /\ dmg.rec = 0 THEN "either"
  ELSE IF FirstBad = n + 1 THEN "accept"
  ELSE IF See(FirstBad) = "absent" THEN "accept"      \* cut at a record boundary: a well-formed shorter blob
  ELSE IF See(FirstBad) = "metaflip" THEN "either"
  ELSE "reject"

\* ---- index tools and migration -----------------------------------------------------------------------
IsIdxCase == dmg.kind \in {"inone", "inoblob", "iextend", "iflip", "itrunc", "istale"}
\* the whole file is covered by the hash in its header; the header fields are checked one by one;
\* the blob size in the header must be the size of the blob (when there is one)
ValidateIndex == IF dmg.kind \in {"inone", "inoblob"} THEN "accept" ELSE "reject"
\* read_index does not look at the blob: a stale index still reports exactly what it was built from
ReadIndex == IF dmg.kind \in {"inone", "inoblob", "istale"} THEN "exact" ELSE "error"
\* "same": every record under its key; "reversed": every record under the byte-reversed key;
\* "error": the pair of versions is not supported and nothing is produced
Migrate ==
  LET from == dmg.rec \div 10  to == dmg.rec % 10 IN
  IF from >= to THEN "same" ELSE IF from = 0 /\ to = 1 THEN "reversed" ELSE "error"

-----------------------------------------------------------------------------
Init == n \in 1..MaxN /\ dmg \in Damages(MaxN) /\ (dmg.kind = "migrate" \/ dmg.rec <= n)
Next == UNCHANGED <<n, dmg>>
Spec == Init /\ [][Next]_<<n, dmg>>

\* consistency of the case analysis with the property text
NoLoss == \A S \in RecoverSkip \cup RecoverPlain : \A i \in 1..(FirstBad - 1) : i \in S
OnlyIntact == \A S \in RecoverSkip \cup RecoverPlain : \A i \in S : See(i) \in {"ok", "metaflip"}
SkipRecoversMore == \A P \in RecoverPlain : \E S \in RecoverSkip : P \subseteq S
AfterIsolatedDamage ==
  /\ (FirstBad <= n /\ See(FirstBad) \in {"hdrval", "recval"}) => \A S \in RecoverSkip : S = (1..n) \ {FirstBad}
  /\ (FirstBad <= n /\ See(FirstBad) = "metaflip") => \A S \in RecoverSkip : (1..n) \ {FirstBad} \subseteq S
AcceptIffWellFormed == (Validate = "accept") <=> (~HeaderFails /\ ~(dmg.kind = "flip" /\ dmg.rec = 0) /\ \A i \in Present : See(i) = "ok")

\* C16, index part: accepted = produced by the storage for this very blob
IdxAcceptIffProduced == IsIdxCase => ((ValidateIndex = "accept") <=> dmg.kind \in {"inone", "inoblob"})
IdxReadNeverWrong == IsIdxCase => ReadIndex \in {"exact", "error"}
MigratePreserves == dmg.kind = "migrate" => (Migrate = "error" <=> (dmg.rec \div 10 < dmg.rec % 10 /\ dmg.rec # 1))

ToolsJson == [n |-> n, dmg |-> dmg, validate |-> Validate, fails |-> HeaderFails,
              plain |-> RecoverPlain, skip |-> RecoverSkip,
              ivalidate |-> IF IsIdxCase THEN ValidateIndex ELSE "",
              iread |-> IF IsIdxCase THEN ReadIndex ELSE "",
              migrate |-> IF dmg.kind = "migrate" THEN Migrate ELSE ""]
=============================================================================
