------------------------------ MODULE GenTools ------------------------------
(* Emits every (blob size, damage) case of PearlTools with the allowed outcomes *)
(* as one JSON line for the harness (harness/src/bin/tools.rs).                 *)
EXTENDS PearlTools, Json
EmitCase == PrintT(<<"TOOLCASE", ToJson(ToolsJson)>>)
=============================================================================
