----------------------------- MODULE TraceWorker -----------------------------
(* Trace validation of the worker loop: executions of the real storage, recorded   *)
(* through the cfg(pearl_verif) hooks in src/storage/observer_worker.rs, replayed   *)
(* through the actions of PearlWorker.  The hooks log what the loop did (message    *)
(* received, timer fired and which of the four outcomes process_deferred took,     *)
(* dump task spawned / returned, what is_finished() answered) and, at the top of    *)
(* every iteration, the state it is in (deferred dump registered, deadline armed).  *)
(* The specification computes the state from the logged actions with its own        *)
(* transitions (RearmOnBusy = ResetBeforeProcess = TRUE: the required behaviour);   *)
(* a logged state that differs from the computed one rejects the trace.             *)
(* C13 at trace level: at every `quiescent` driver event (deferred dumps enabled)   *)
(* every closed blob has its index on disk.                                        *)
EXTENDS PearlWorker, Integers, Json, IOUtils

Rec == ndJsonDeserialize(IOEnv.TRACE)

VARIABLES l,        \* next event to consume
          sw,       \* the TryUpdateActiveBlob in progress did switch the active blob
          mem,      \* blobs whose index is in memory
          act,      \* id of the active blob (-1: none)
          fires     \* deferred dumps fire in this execution (otherwise they are set to one hour)

tvars == <<wvars, l, sw, mem, act, fires>>
E == Rec[l]

TInit == WInit /\ l = 1 /\ sw = FALSE /\ mem = {} /\ act = -1 /\ fires = FALSE

Keep == UNCHANGED <<chan, dirty, fresh, reqs>>
Same == UNCHANGED <<deferred, deadline, task, progress>>

\* is_finished() answered `busy`: a returned task becomes finished exactly when it is seen so
Observe(busy) ==
  IF busy = 0 /\ task = "exiting" THEN task' = "finished" /\ UNCHANGED <<deferred, deadline, progress>>
  ELSE (busy = 1) = TaskBusy /\ Same

ConsumeW ==
  CASE E.ev = "reset" ->        \* a new execution: fresh directory
         /\ deferred' = FALSE /\ deadline' = FALSE /\ task' = "none" /\ progress' = 0
         /\ sw' = FALSE /\ mem' = {} /\ act' = -1 /\ fires' = (E.op = "fires")
    [] E.ev = "wstart" ->       \* a new storage object: new worker
         /\ deferred' = FALSE /\ deadline' = FALSE /\ task' = "none" /\ progress' = 0
         /\ sw' = FALSE /\ mem' = {} /\ UNCHANGED <<act, fires>>
    [] E.ev = "wstate" ->       \* top of a loop iteration: the state the code is in
         /\ deferred = (E.deferred = 1) /\ deadline = (E.deadline = 1)
         /\ Observe(E.busy) /\ UNCHANGED <<sw, mem, act, fires>>
    [] E.ev = "wbusy" -> Observe(E.busy) /\ UNCHANGED <<sw, mem, act, fires>>
    [] E.ev = "wtask_end" ->
         /\ task = "run" /\ task' = "exiting" /\ UNCHANGED <<deferred, deadline, progress, sw, mem, act, fires>>
    [] E.ev = "wupdate" -> sw' = (E.switched = 1) /\ Same /\ UNCHANGED <<mem, act, fires>>
    [] E.ev = "worker_end" ->
         /\ CASE E.optype = 6 -> MsgDefer
              [] E.optype = 4 -> MsgDump
              [] E.optype = 5 -> IF sw THEN MsgUpdateSwitched ELSE Same
              [] OTHER -> Same
         /\ sw' = FALSE /\ UNCHANGED <<mem, act, fires>>
    [] E.ev = "wtimer_end" ->
         /\ deadline
         /\ CASE E.outcome = 0 -> TimerNothing
              [] E.outcome = 1 -> TimerNotDue
              [] E.outcome = 2 -> TimerDueStart
              [] E.outcome = 3 -> TimerDueBusy
         /\ UNCHANGED <<sw, mem, act, fires>>
    [] E.ev = "loaded" -> mem' = mem \cup {E.id} /\ Same /\ UNCHANGED <<sw, act, fires>>
    [] E.ev = "dumped" ->   \* an empty index has nothing to dump and stays in memory
         mem' = (IF E.on_disk = 1 \/ E.count = 0 THEN mem \ {E.id} ELSE mem) /\ Same /\ UNCHANGED <<sw, act, fires>>
    [] E.ev \in {"active_set", "active_restored", "active_replaced", "active_init"} ->
         \* a blob that becomes active has its index in memory
         /\ act' = E.id /\ mem' = (IF E.id >= 0 THEN mem \cup {E.id} ELSE mem) /\ Same /\ UNCHANGED <<sw, fires>>
    [] E.ev = "active_closed" -> act' = -1 /\ Same /\ UNCHANGED <<sw, mem, fires>>
    [] E.ev = "quiescent" ->
         \* C13: nothing is left to run and no closed blob waits for its index dump
         /\ (fires /\ E.ok = 1) => (mem \ {act} = {} /\ ~deferred)
         /\ Same /\ UNCHANGED <<sw, mem, act, fires>>
    [] OTHER -> Same /\ UNCHANGED <<sw, mem, act, fires>>

TraceNext == l <= Len(Rec) /\ l' = l + 1 /\ ConsumeW /\ Keep
TraceSpec == TInit /\ [][TraceNext]_tvars

TraceAccepted ==
  LET d == TLCGet("stats").diameter IN
  IF d - 1 = Len(Rec) THEN TRUE
  ELSE Print(<<"TRACE-REJECTED", d, ToJson(Rec[d])>>, FALSE)
=============================================================================
