----------------------------- MODULE TraceWorker -----------------------------
(* Trace validation of the worker loop: executions of the real storage, recorded   *)
(* through the cfg(pearl_verif) hooks in src/storage/observer_worker.rs, replayed   *)
(* through the actions of PearlWorker.  The hooks log what the loop did (message    *)
(* received, timer fired and which of the four outcomes process_deferred took,     *)
(* dump task spawned / returned, what is_finished() answered) and, at the top of    *)
(* every iteration, the state it is in (deferred dump registered, deadline armed).  *)
(* The specification computes the state from the logged actions with its own        *)
(* transitions (RearmOnBusy = ResetBeforeProcess = TRUE: the required behaviour);   *)
(* a logged state that differs from the computed one rejects the trace.             *)
(* C13 at trace level: at every `quiescent` driver event (deferred dumps enabled)   *)
(* every closed blob has its index on disk.                                        *)
EXTENDS PearlWorker, Integers, Json, IOUtils

Rec == ndJsonDeserialize(IOEnv.TRACE)

VARIABLES l,        \* next event to consume
          sw,       \* the TryUpdateActiveBlob in progress did switch the active blob
          cur,      \* request being processed (its optype), -1: none - then try_run belongs to the timer branch
          applied,  \* the transition of the request in progress was taken at its try_run observation
          mem,      \* blobs whose index is in memory
          act,      \* id of the active blob (-1: none)
          fires     \* deferred dumps fire in this execution (otherwise they are set to one hour)

tvars == <<wvars, l, sw, cur, applied, mem, act, fires>>
E == Rec[l]

TInit == WInit /\ l = 1 /\ sw = FALSE /\ cur = -1 /\ applied = FALSE /\ mem = {} /\ act = -1 /\ fires = FALSE

Keep == UNCHANGED <<chan, dirty, fresh, reqs>>
Same == UNCHANGED <<deferred, deadline, task, progress>>
Rest == UNCHANGED <<sw, cur, applied, mem, act, fires>>

(* Grain of atomicity.  A request that calls try_run_old_blob_indexes_dump_task is ONE action of   *)
(* PearlWorker; in the code it is the observation of is_finished() (hook `wbusy`), the spawn and   *)
(* some bookkeeping of fields that only the worker touches.  The action is taken at the `wbusy`     *)
(* event (nothing that follows in the same request is visible to anybody else); `worker_end` /      *)
(* `wtimer_end` then only close the request.  JoinHandle::is_finished turns true some time after    *)
(* the task's future returned (`wtask_end`): the moment is not observable, so the specification    *)
(* branches (returned / finished) and the observations (`busy` of `wbusy` and `wstate`) prune.      *)

ConsumeW ==
  CASE E.ev = "reset" ->        \* a new execution: fresh directory
         /\ deferred' = FALSE /\ deadline' = FALSE /\ task' = "none" /\ progress' = 0
         /\ sw' = FALSE /\ cur' = -1 /\ applied' = FALSE /\ mem' = {} /\ act' = -1 /\ fires' = (E.op = "fires")
    [] E.ev = "wstart" ->       \* a new storage object: new worker
         /\ deferred' = FALSE /\ deadline' = FALSE /\ task' = "none" /\ progress' = 0
         /\ sw' = FALSE /\ cur' = -1 /\ applied' = FALSE /\ mem' = {} /\ UNCHANGED <<act, fires>>
    [] E.ev = "wstate" ->       \* top of a loop iteration: the state the code is in
         /\ deferred = (E.deferred = 1) /\ deadline = (E.deadline = 1)
         /\ IF task = "exiting"
            THEN task' \in (IF E.busy = 0 THEN {"finished"} ELSE {"exiting", "finished"})
            ELSE (E.busy = 1) = (task = "run") /\ UNCHANGED task
         /\ UNCHANGED <<deferred, deadline, progress>> /\ Rest
    [] E.ev = "worker_begin" -> cur' = E.optype /\ Same /\ UNCHANGED <<sw, applied, mem, act, fires>>
    [] E.ev = "wupdate" -> sw' = (E.switched = 1) /\ Same /\ UNCHANGED <<cur, applied, mem, act, fires>>
    [] E.ev = "wbusy" ->
         /\ (E.busy = 1) = TaskBusy
         /\ CASE cur = 4 -> MsgDump
              [] cur = 5 -> sw /\ ~deferred /\ MsgUpdateSwitched
              [] cur = -1 -> deadline /\ (IF E.busy = 1 THEN TimerDueBusy ELSE TimerDueStart)
         /\ applied' = TRUE /\ UNCHANGED <<sw, cur, mem, act, fires>>
    [] E.ev = "wtask_end" ->
         /\ task = "run" /\ task' \in {"exiting", "finished"} /\ UNCHANGED <<deferred, deadline, progress>> /\ Rest
    [] E.ev = "worker_end" ->
         /\ IF applied THEN Same
            ELSE CASE E.optype = 6 -> MsgDefer
                   [] E.optype = 5 /\ sw -> deferred /\ MsgUpdateSwitched     \* attached to the registered deferred dump
                   [] OTHER -> Same
         /\ sw' = FALSE /\ cur' = -1 /\ applied' = FALSE /\ UNCHANGED <<mem, act, fires>>
    [] E.ev = "wtimer_end" ->
         /\ IF applied THEN E.outcome \in {2, 3} /\ Same
            ELSE /\ deadline
                 /\ CASE E.outcome = 0 -> TimerNothing
                      [] E.outcome = 1 -> TimerNotDue
         /\ applied' = FALSE /\ UNCHANGED <<sw, cur, mem, act, fires>>
    [] E.ev = "loaded" -> mem' = mem \cup {E.id} /\ Same /\ UNCHANGED <<sw, cur, applied, act, fires>>
    [] E.ev = "dumped" ->   \* an empty index has nothing to dump and stays in memory
         mem' = (IF E.on_disk = 1 \/ E.count = 0 THEN mem \ {E.id} ELSE mem) /\ Same /\ UNCHANGED <<sw, cur, applied, act, fires>>
    [] E.ev \in {"active_set", "active_restored", "active_replaced", "active_init"} ->
         \* a blob that becomes active has its index in memory
         /\ act' = E.id /\ mem' = (IF E.id >= 0 THEN mem \cup {E.id} ELSE mem) /\ Same /\ UNCHANGED <<sw, cur, applied, fires>>
    [] E.ev = "active_closed" -> act' = -1 /\ Same /\ UNCHANGED <<sw, cur, applied, mem, fires>>
    [] E.ev = "quiescent" ->
         \* C13: nothing is left to run and no closed blob waits for its index dump
         /\ (fires /\ E.ok = 1) => (mem \ {act} = {} /\ ~deferred)
         /\ Same /\ Rest
    [] OTHER -> Same /\ Rest

TraceNext == l <= Len(Rec) /\ l' = l + 1 /\ ConsumeW /\ Keep
TraceSpec == TInit /\ [][TraceNext]_tvars

TraceAccepted ==
  LET d == TLCGet("stats").diameter IN
  IF d - 1 = Len(Rec) THEN TRUE
  ELSE Print(<<"TRACE-REJECTED", d, ToJson(Rec[d])>>, FALSE)
=============================================================================
