------------------------------ MODULE GenStore ------------------------------
(* Behaviour generator: PearlStore plus a history variable.  At the end of   *)
(* each behaviour (GenLen steps) one JSON line is printed with the actions,  *)
(* their return values and the reference-layer observables after every step. *)
(* The harness (harness/src/bin/replay.rs) executes every line on the real   *)
(* storage and compares every observable after every step.                   *)
EXTENDS PearlStore, Json

CONSTANTS GenLen,      \* number of steps of a generated behaviour
          GenActs,     \* names of the actions that may occur
          GenRestarts, \* restarts used: graceful + 2 * lazy + 4 * (0 keep | 1 lose | 2 stale)
          GenPreds,    \* predicates used by force_update
          ObsEvery,    \* TRUE: behaviours of exactly GenLen steps, observables after every step;
                       \* FALSE: every prefix is printed as its own behaviour with its final observables
          SuffixId,    \* fixed continuation after the GenLen free steps (0 = none), see Suffix
          SampleMod,   \* a behaviour is printed iff its hash mod SampleMod < SampleKeep
          SampleKeep,
          Seed

VARIABLES hist, hh, done

\* the history keeps a snapshot of the store after every step; the observables are
\* evaluated from the snapshots only when a behaviour is printed
Step == IF ObsEvery THEN [act |-> act', ret |-> ret', snap |-> Snapshot']
                    ELSE [act |-> act', ret |-> ret']

WithObs(h) == [i \in DOMAIN h |-> [act |-> h[i].act, ret |-> h[i].ret, obs |-> ObsOf(h[i].snap)]]

\* fixed continuations: 1 = three writes, each after waiting out the rotation debounce, which overflow the active blob
\* (C13: rotation must still happen after any history)
Suffix == IF SuffixId = 1 THEN <<"age", "write", "age", "write", "age", "write">> ELSE <<>>
TotalLen == GenLen + Len(Suffix)

On(a) == IF Len(hist) < GenLen THEN a \in GenActs ELSE a = Suffix[Len(hist) - GenLen + 1]
InSuffix == Len(hist) >= GenLen

GData ==
  \/ On("write")  /\ ~InSuffix /\ \E k \in Keys, ts \in 1..MaxTs, m \in Metas, sz \in Sizes : Write(k, ts, m, sz)
  \/ On("write")  /\ InSuffix /\ Write(CHOOSE k \in Keys : TRUE, MaxTs, 0, CHOOSE s \in Sizes : TRUE)
  \/ On("delete") /\ \E k \in Keys, ts \in 1..MaxTs, m \in Metas, o \in BOOLEAN : Delete(k, ts, m, o)

GLife ==
  \/ On("close_active")   /\ CloseActive
  \/ On("create_active")  /\ CreateActive
  \/ On("restore_active") /\ RestoreActive
  \/ On("force_update")   /\ \E p \in GenPreds : ForceUpdate(p)
  \/ On("close_bg")       /\ CloseBg
  \/ On("create_bg")      /\ CreateBg
  \/ On("restore_bg")     /\ RestoreBg
  \/ On("free_excess")    /\ FreeExcess
  \/ On("fsync")          /\ Fsync
  \/ On("age")            /\ Age
  \/ On("offload")        /\ \E l \in OffloadLevels : Offload(l)
  \/ On("dump_idx")       /\ \E b \in Ids : DumpIdx(b)

\* a restart is coded as graceful + 2 * lazy + 4 * damage class (configuration files
\* cannot hold tuples)
DmgNames == <<"keep", "lose", "stale">>
GRestart ==
  On("restart") /\ \E r \in GenRestarts :
     LET g == r % 2 = 1  lz == (r \div 2) % 2 = 1  d == DmgNames[(r \div 4) + 1] IN
     RestartL(g, lz, [b \in Ids |-> d], d)

\* restart with one unreadable blob file (the victim is reported in the `k` field)
GRestartCorrupt ==
  On("restart_corrupt") /\ \E g \in BOOLEAN, lz \in BOOLEAN, v \in Ids :
     /\ RestartCorrupt(g, lz, v)


\* order-sensitive hash of the action sequence, for sampling inside TLC
ACode(x) == Len(x.a) * 53 + x.k * 13 + x.ts * 7 + x.m * 5 + x.f * 3 + Len(x.s)

\* A behaviour ends with the single step Finish, so that in simulation mode (where TLC
\* evaluates the invariant on every successor before choosing one) exactly the chosen
\* behaviour is printed.
GStep == /\ Len(hist) < TotalLen /\ ~done
         /\ (GData \/ GLife \/ GRestart \/ GRestartCorrupt)
         /\ hist' = Append(hist, Step)
         /\ hh' = (hh * 31 + ACode(act')) % 1000003
         /\ UNCHANGED done
Finish == /\ Len(hist) = TotalLen /\ ~done
          /\ done' = TRUE
          /\ UNCHANGED <<vars, hist, hh>>
GNext == GStep \/ Finish

GInit == Init /\ hist = <<>> /\ hh = Seed % 1000003 /\ done = FALSE
GSpec == GInit /\ [][GNext]_<<vars, hist, hh, done>>

Emit ==
  IF ObsEvery
  THEN (done /\ hh % SampleMod < SampleKeep)
           => PrintT(<<"BEHAVIOUR", ToJson([steps |-> WithObs(hist)])>>)
  ELSE (~done /\ Len(hist) >= 1 /\ hh % SampleMod < SampleKeep)
           => PrintT(<<"BEHAVIOUR", ToJson([steps |-> hist, final |-> ObsOf(Snapshot)])>>)
=============================================================================
