----------------------------- MODULE PushLemma -----------------------------
(* Lemma behind C01 / C09: IndexStruct::push keeps a per-key vector sorted by *)
(* timestamp with ties in insertion order, whatever index the binary search   *)
(* (used for more than 4 entries) returns among equal timestamps.  Every      *)
(* sorted vector up to MaxLen over timestamps 1..MaxTs is an initial state.   *)
EXTENDS PearlStore

CONSTANTS LMaxLen

VARIABLES tsv, newts   \* timestamps of the records already indexed (file order = insertion order), the new one

\* build the vector by pushes, as the code does
RECURSIVE Build(_, _, _)
Build(recs, i, vec) ==
  IF i > Len(recs) THEN vec
  ELSE Build(recs, i + 1, CHOOSE x \in PushResults(recs, vec, i, recs[i].ts) : TRUE)

RecsOf(s) == [i \in DOMAIN s |-> Rec(1, s[i], FALSE, 0, i, "s")]

LInit == /\ Init
         /\ tsv \in UNION {[1..n -> 1..MaxTs] : n \in 0..LMaxLen}
         /\ newts \in 1..MaxTs
LNext == UNCHANGED <<vars, tsv, newts>>
LSpec == LInit /\ [][LNext]_<<vars, tsv, newts>>

Sorted(recs, vec) ==
  \A i, j \in DOMAIN vec : i < j =>
     \/ recs[vec[i]].ts < recs[vec[j]].ts
     \/ recs[vec[i]].ts = recs[vec[j]].ts /\ vec[i] < vec[j]

PushDeterministicAndSorted ==
  LET recs0 == RecsOf(tsv)
      vec0  == Build(recs0, 1, <<>>)
      recs1 == Append(recs0, Rec(1, newts, FALSE, 0, Len(recs0) + 1, "s"))
      outs  == PushResults(recs1, vec0, Len(recs1), newts)
  IN  /\ Sorted(recs0, vec0)
      /\ Cardinality(outs) = 1
      /\ \A v \in outs : Sorted(recs1, v) /\ Len(v) = Len(vec0) + 1
      \* the last element is the reference winner: greatest timestamp, latest appended
      /\ \A v \in outs : \A i \in DOMAIN recs1 :
            \/ recs1[v[Len(v)]].ts > recs1[i].ts
            \/ recs1[v[Len(v)]].ts = recs1[i].ts /\ v[Len(v)] >= i
=============================================================================
