------------------------------ MODULE MCStore ------------------------------
(* Model-checking wrapper of PearlStore: bounds, the view that hides the     *)
(* observation variables (act, ret), a selectable action alphabet and the    *)
(* per-transition check behind C03 / C04 / C15.                              *)
EXTENDS PearlStore

CONSTANTS MaxOps,     \* bound on data operations
          MaxBlobId,  \* bound on blob ids
          MCActs,     \* names of the enabled actions
          MCDamages   \* damage classes used by restarts (applied uniformly to all index files)

View == <<blob, active, slots, nextId, usedIds, quar, worker, agedIds, opn>>

Bound == opn <= MaxOps /\ nextId <= MaxBlobId + 1 /\ Len(slots) <= MaxBlobId + 2

\* Every reference-layer answer and every count is a function of the live set and of the
\* record sequences of the non-empty live blobs only (see the Ref.. definitions), so "no
\* answer changes" is checked as "RecsOfLive does not change".  (An action property in
\* PROPERTIES would send TLC through its liveness machinery, 30 times slower.)
RecsOfLive == {<<b, blob[b].recs>> : b \in {x \in Live : blob[x].recs # <<>>}}
StepChecks ==
  Assert(IsData \/ act'.s = "corrupt" \/ RecsOfLive' = RecsOfLive,
         <<"Transparent violated: a non-data action changed the live records", act'>>)

On(a) == a \in MCActs

MCData ==
  \/ On("write")  /\ \E k \in Keys, ts \in 1..MaxTs, m \in Metas, sz \in Sizes : Write(k, ts, m, sz)
  \/ On("delete") /\ \E k \in Keys, ts \in 1..MaxTs, m \in Metas, o \in BOOLEAN : Delete(k, ts, m, o)

MCLife ==
  \/ On("close_active")   /\ CloseActive
  \/ On("create_active")  /\ CreateActive
  \/ On("restore_active") /\ RestoreActive
  \/ On("force_update")   /\ \E p \in {"always", "never", "ifactive"} : ForceUpdate(p)
  \/ On("close_bg")       /\ CloseBg
  \/ On("create_bg")      /\ CreateBg
  \/ On("restore_bg")     /\ RestoreBg
  \/ On("free_excess")    /\ FreeExcess
  \/ On("age")            /\ Age
  \/ On("dump_idx")       /\ \E b \in Ids : DumpIdx(b)

MCRestart ==
  On("restart") /\ \E g \in BOOLEAN, lz \in BOOLEAN, c \in MCDamages :
     Restart(g, lz, [b \in Ids |-> c])

\* the full per-file product of damage classes
MCRestartFull == On("restart_full") /\ \E g \in BOOLEAN, lz \in BOOLEAN, d \in Damages : Restart(g, lz, d)

\* one blob file found unreadable at start-up (quarantine)
MCRestartCorrupt == On("restart_corrupt") /\ \E g \in BOOLEAN, lz \in BOOLEAN, v \in Ids : RestartCorrupt(g, lz, v)

MCNext == (MCData \/ MCLife \/ MCRestart \/ MCRestartFull \/ MCRestartCorrupt) /\ StepChecks
MCSpec == Init /\ [][MCNext]_vars
=============================================================================
