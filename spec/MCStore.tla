------------------------------ MODULE MCStore ------------------------------
(* Model-checking wrapper of PearlStore: bounds and the view that hides the  *)
(* observation variables (act, ret).                                         *)
EXTENDS PearlStore

CONSTANTS MaxOps,    \* bound on data operations
          MaxBlobId  \* bound on blob ids

View == <<blob, active, slots, nextId, usedIds, quar, worker, agedIds, opn>>

Bound == opn <= MaxOps /\ nextId <= MaxBlobId + 1 /\ Len(slots) <= MaxBlobId + 2

\* C04 / C03 / C15 as a check on every explored transition (an action property in
\* PROPERTIES would send TLC through its liveness machinery, 30 times slower)
\* Every reference-layer answer and every count is a function of the live set and of the
\* record sequences of the live blobs only (see the Ref.. definitions), so "no answer
\* changes" is checked as "RecsOfLive does not change".
RecsOfLive == {<<b, blob[b].recs>> : b \in {x \in Live : blob[x].recs # <<>>}}
StepChecks ==
  Assert(IsData \/ RecsOfLive' = RecsOfLive,
         <<"Transparent violated: a non-data action changed the live records", act'>>)

\* restarts with one damage class for all files keep the branching small; the full
\* per-file product is explored by MCStoreDmg.cfg
UniformRestart ==
  \E g \in BOOLEAN, lz \in BOOLEAN, c \in {"keep", "lose", "stale"} :
     Restart(g, lz, [b \in Ids |-> c])

MCNextUniform == (DataNext \/ LifeNext \/ UniformRestart) /\ StepChecks
MCSpecUniform == Init /\ [][MCNextUniform]_vars
=============================================================================
